//! C08 — the `memcpy`, `memmove`, `memset`, `memcmp`, `bcmp` symbols that tiny-start gives
//! to no-libc binaries behave as the C standard says for every length, alignment and
//! overlap, and never write outside the destination.
//!
//! Engine E4 (bounded-exhaustive enumeration) on the REAL code: the repository's
//! `tiny-start/src/symbols/mem.rs` is compiled verbatim into the private shared object
//! `libmemsyms.so` (crate `memsyms`), which is `dlopen`ed with `RTLD_LOCAL`; the five
//! functions are taken with `dlsym` on that handle.  The harness itself keeps libc's
//! `memcpy` & co., so a broken function under test cannot corrupt the checker.
//!
//! Oracle per call: destination == volatile byte-loop reference, everything around the
//! destination (>= 64 bytes on both sides, or an inaccessible page) untouched, source
//! untouched where it is not destination, returned pointer == dest; for memcmp the sign,
//! for bcmp the zero-ness, of a volatile byte-loop comparison.

use common::*;
use serde_json::{json, Value};
use std::ffi::{c_int, c_void, CStr, CString};
use std::ptr::{read_volatile, write_volatile};

type CopyFn = unsafe extern "C" fn(*mut u8, *const u8, usize) -> *mut u8;
type SetFn = unsafe extern "C" fn(*mut u8, c_int, usize) -> *mut u8;
type CmpFn = unsafe extern "C" fn(*const u8, *const u8, usize) -> c_int;

/// Values of mem.rs as read on 2026-10-02; `source_constants` re-derives the threshold
/// from the source that was actually compiled and widens the window if it grew.
const WORD: usize = 8;
const THRESHOLD: usize = 16;
const RED: usize = 64;
const REPO_SRC: &str = "/repo/tiny-start/src/symbols/mem.rs";
const LADDER: &[usize] = &[63, 64, 65, 127, 128, 129, 255, 256, 257, 4095, 4096, 4097, 65535, 65536, 65537, 1 << 20];
const FILLS_QUICK: &[u8] = &[0, 1, 0x7f, 0x80, 0xff];
/// (byte in first operand, byte in second operand) at the first differing position
const PAIRS: &[(u8, u8)] = &[(0, 1), (0, 255), (127, 128), (255, 0)];

// ---------------------------------------------------------------------------
// loading the code under test

#[derive(Clone, Copy)]
struct Syms {
    memcpy: CopyFn,
    memmove: CopyFn,
    memset: SetFn,
    memcmp: CmpFn,
    bcmp: CmpFn,
}

struct Loaded {
    syms: Syms,
    so_path: String,
    src_path: String,
    notes: Vec<String>,
}

fn so_candidates() -> Vec<String> {
    let mut v = Vec::new();
    if let Ok(p) = std::env::var("MEMSYMS_SO") {
        v.push(p);
    }
    if let Ok(exe) = std::env::current_exe() {
        if let Some(dir) = exe.parent() {
            // `cargo build -p h-mem` (memsyms is a dependency) refreshes deps/libmemsyms.so;
            // the copy next to the executable exists only after `cargo build -p memsyms`
            // and may be older, so it is the fallback.
            v.push(dir.join("deps/libmemsyms.so").to_string_lossy().into_owned());
            v.push(dir.join("libmemsyms.so").to_string_lossy().into_owned());
        }
    }
    v
}

fn object_of(addr: *const c_void) -> String {
    unsafe {
        let mut info: libc::Dl_info = std::mem::zeroed();
        if libc::dladdr(addr, &mut info) == 0 || info.dli_fname.is_null() {
            return "?".into();
        }
        CStr::from_ptr(info.dli_fname).to_string_lossy().into_owned()
    }
}

fn load() -> Loaded {
    let cands = so_candidates();
    let Some(path) = cands.iter().find(|p| std::path::Path::new(p).is_file()).cloned() else {
        eprintln!("h-mem: libmemsyms.so not found (looked at {cands:?}); run `cargo build --offline -p h-mem`");
        std::process::exit(2);
    };
    unsafe {
        let cpath = CString::new(path.clone()).unwrap();
        // RTLD_LOCAL: the object's `memcpy`... are NOT added to the global lookup scope.
        let h = libc::dlopen(cpath.as_ptr(), libc::RTLD_NOW | libc::RTLD_LOCAL);
        if h.is_null() {
            eprintln!("h-mem: dlopen({path}) failed: {}", CStr::from_ptr(libc::dlerror()).to_string_lossy());
            std::process::exit(2);
        }
        let mut notes = Vec::new();
        let mut get = |name: &str| -> *mut c_void {
            let c = CString::new(name).unwrap();
            let p = libc::dlsym(h, c.as_ptr());
            assert!(!p.is_null(), "symbol {name} missing from {path}");
            let obj = object_of(p);
            assert!(obj.contains("memsyms"), "{name} resolved to {obj}, not to the object under test");
            // what the harness process itself calls under that name must stay libc's
            let g = libc::dlsym(libc::RTLD_DEFAULT, c.as_ptr());
            if !g.is_null() {
                let gobj = object_of(g);
                assert!(g != p && !gobj.contains("memsyms"), "global {name} is the code under test ({gobj})");
                if name == "memcpy" {
                    notes.push(format!("process-global memcpy lives in {gobj}; memcpy under test in {obj}"));
                }
            }
            p
        };
        let syms = Syms {
            memcpy: std::mem::transmute::<*mut c_void, CopyFn>(get("memcpy")),
            memmove: std::mem::transmute::<*mut c_void, CopyFn>(get("memmove")),
            memset: std::mem::transmute::<*mut c_void, SetFn>(get("memset")),
            memcmp: std::mem::transmute::<*mut c_void, CmpFn>(get("memcmp")),
            bcmp: std::mem::transmute::<*mut c_void, CmpFn>(get("bcmp")),
        };
        let src = get_src(h);
        Loaded { syms, so_path: path, src_path: src, notes }
    }
}

unsafe fn get_src(h: *mut c_void) -> String {
    let p = libc::dlsym(h, c"VT_MEMSYMS_SRC".as_ptr());
    if p.is_null() {
        return "?".into();
    }
    CStr::from_ptr(p as *const libc::c_char).to_string_lossy().into_owned()
}

/// Largest byte count that `WORD_COPY_THRESHOLD` of the compiled source can evaluate to on
/// this target (None: the constant was not found, the window cannot be justified).
fn source_threshold(src_path: &str) -> Option<usize> {
    let text = std::fs::read_to_string(src_path).ok()?;
    let at = text.find("const WORD_COPY_THRESHOLD")?;
    let item = &text[at..];
    let item = &item[..item.find(';')?];
    let item = item.replace("WORD_SIZE", &WORD.to_string());
    // largest literal and largest product `a * b` occurring in the item
    let toks: Vec<&str> = item.split(|c: char| !(c.is_ascii_alphanumeric() || c == '*' || c == '_')).filter(|t| !t.is_empty()).collect();
    let mut best = 0usize;
    for (i, t) in toks.iter().enumerate() {
        if let Ok(v) = t.parse::<usize>() {
            best = best.max(v);
            if i >= 2 && toks[i - 1] == "*" {
                if let Ok(u) = toks[i - 2].parse::<usize>() {
                    best = best.max(u * v);
                }
            }
        }
    }
    (best > 0).then_some(best)
}

// ---------------------------------------------------------------------------
// operand placement

/// Where an operand lies in its arena.
#[derive(Clone, Copy, PartialEq, Debug)]
enum P {
    /// in the middle of accessible memory, `RED + m` bytes after a page start (misalignment m), canaries around it
    Mid(usize),
    /// last byte is the last accessible byte before a PROT_NONE page
    End,
    /// first byte is the first accessible byte after a PROT_NONE page
    Start,
}

impl P {
    fn name(self) -> &'static str {
        match self {
            P::Mid(_) => "mid",
            P::End => "end",
            P::Start => "start",
        }
    }
    fn mis(self) -> usize {
        match self {
            P::Mid(m) => m,
            _ => 0,
        }
    }
    fn parse(name: &str, m: usize) -> P {
        match name {
            "end" => P::End,
            "start" => P::Start,
            _ => P::Mid(m & 15),
        }
    }
}

/// A checked window of an arena: the operand (or span) is `[off, off+n)` of it.
#[derive(Clone, Copy)]
struct Region {
    base: *mut u8,
    len: usize,
    off: usize,
}

const SLACK: usize = RED + 16;

fn locate(arena: &GuardArena, p: P, n: usize) -> Region {
    let r = match p {
        P::Mid(m) => Region { base: arena.start_ptr(), off: RED + m, len: RED + m + n + RED },
        P::End => Region { base: unsafe { arena.end_ptr().sub(n + SLACK) }, off: SLACK, len: n + SLACK },
        P::Start => Region { base: arena.start_ptr(), off: 0, len: n + SLACK },
    };
    assert!(r.len <= arena.capacity());
    r
}

impl Region {
    #[allow(clippy::mut_from_ref)]
    fn bytes(&self) -> &'static mut [u8] {
        unsafe { std::slice::from_raw_parts_mut(self.base, self.len) }
    }
    fn ptr(&self) -> *mut u8 {
        unsafe { self.base.add(self.off) }
    }
}

struct Ctx {
    f: Syms,
    /// destination arena (memcmp: second operand)
    a: GuardArena,
    /// source arena (memcmp: first operand)
    s: GuardArena,
    /// source pattern by operand index: neighbours within 251 bytes are distinct, and so are bytes 251*k apart
    pat: Vec<u8>,
    /// complement of `pat`: prefill of a destination, so a byte that is not written is always seen
    npat: Vec<u8>,
    /// canary by region index
    cz: Vec<u8>,
    exp: Vec<u8>,
    exp2: Vec<u8>,
    tmp: Vec<u8>,
    case: String,
    /// hardware write watchpoints (only in the `Watch` shards / a replay of such a case)
    watch: Option<Watch>,
    /// first reason why the watchpoint machinery cannot be trusted in this shard
    wp_fail: Option<String>,
}

impl Ctx {
    fn new(f: Syms, max_span: usize) -> Ctx {
        let pages = (max_span + 2 * SLACK + 64) / 4096 + 2;
        let a = GuardArena::new(pages);
        let s = GuardArena::new(pages);
        let cap = a.capacity() + 64;
        let pat: Vec<u8> = (0..cap).map(|i| ((i % 251) + 7 * (i / 251)) as u8).collect();
        let npat: Vec<u8> = pat.iter().map(|b| !b).collect();
        let cz: Vec<u8> = (0..cap).map(|i| 0xA5u8 ^ ((i % 253) as u8).wrapping_mul(3)).collect();
        Ctx { f, a, s, pat, npat, cz, exp: vec![0; cap], exp2: vec![0; cap], tmp: vec![0; cap], case: String::with_capacity(256), watch: None, wp_fail: None }
    }

    /// Open the four watchpoints and prove on a scratch buffer that they count what they must.
    fn enable_watch(&mut self) {
        match Watch::open() {
            Ok(w) => self.watch = Some(w),
            Err(e) => {
                self.wp_fail = Some(e);
                return;
            }
        }
        if let Err(e) = self.calibrate() {
            self.wp_fail.get_or_insert(e);
        }
    }

    /// Machinery self-test: a correct byte-loop copy into `[dest, dest+n)` counts 0 on every
    /// watchpoint of both sides; a same-value store to each watched byte counts exactly 1; an
    /// aligned word read-modify-write that straddles an end of the range (the shape of defect the
    /// watchpoints exist for) counts.
    fn calibrate(&mut self) -> Result<(), String> {
        let base = self.a.start_ptr() as usize + 256;
        for (mis, n) in [(0usize, 16usize), (3, 18), (5, 0), (7, 33), (12, 21)] {
            let dest = base + mis;
            for side in [Side::After, Side::Before] {
                let ps = pieces(dest, n, side);
                let w = self.watch.as_mut().unwrap();
                w.arm(&ps)?;
                let d = unsafe { std::slice::from_raw_parts_mut(dest as *mut u8, n) };
                let src = self.pat[..n].to_vec();
                w.reset();
                ref_copy(d, &src);
                let c = w.counts();
                if c.iter().any(|&x| x != 0) {
                    return Err(format!("calibration: a correct copy of {n} bytes to ..{mis:x} counted {c:?} on the {side:?} watchpoints {ps:?}"));
                }
                for (i, &(a, l)) in ps.iter().enumerate() {
                    for b in a..a + l {
                        w.reset();
                        unsafe { write_volatile(b as *mut u8, read_volatile(b as *const u8)) };
                        let c = w.counts();
                        let ok = (0..ps.len()).all(|j| c[j] == (i == j) as u64);
                        if !ok {
                            return Err(format!("calibration: a same-value store to byte {b:#x} counted {c:?} on the {side:?} watchpoints {ps:?} (expected 1 on #{i} only)"));
                        }
                    }
                }
                // word read-modify-write straddling the end of the range
                let edge = if side == Side::After { dest + n } else { dest };
                if edge % 8 != 0 {
                    let word = (edge & !7) as *mut u64;
                    w.reset();
                    unsafe { write_volatile(word, read_volatile(word)) };
                    if w.counts().iter().all(|&x| x == 0) {
                        return Err(format!("calibration: an aligned 8-byte rewrite of the word at {word:p} was not seen by the {side:?} watchpoints {ps:?}"));
                    }
                }
                w.disarm();
            }
        }
        Ok(())
    }
}

// ---------------------------------------------------------------------------
// hardware write watchpoints: perf_event_open(PERF_TYPE_BREAKPOINT, HW_BREAKPOINT_W) on the
// calling thread, user mode only.  x86 has four debug registers; a watchpoint covers 1, 2, 4
// or 8 bytes and must be aligned to its length.  A count > 0 means a store instruction of this
// thread touched a watched byte while the event was enabled, whatever value was stored.

#[repr(C)]
#[derive(Clone, Copy)]
struct PerfAttr {
    type_: u32,
    size: u32,
    config: u64,
    sample_period: u64,
    sample_type: u64,
    read_format: u64,
    flags: u64,
    wakeup_events: u32,
    bp_type: u32,
    bp_addr: u64,
    bp_len: u64,
    branch_sample_type: u64,
    sample_regs_user: u64,
    sample_stack_user: u32,
    clockid: i32,
    sample_regs_intr: u64,
    aux_watermark: u32,
    sample_max_stack: u16,
    reserved_2: u16,
}
const _: () = assert!(std::mem::size_of::<PerfAttr>() == 112); // PERF_ATTR_SIZE_VER5
const PERF_TYPE_BREAKPOINT: u32 = 5;
const HW_BREAKPOINT_W: u32 = 2;
const ATTR_DISABLED: u64 = 1 << 0;
const ATTR_EXCLUDE_KERNEL: u64 = 1 << 5;
const ATTR_EXCLUDE_HV: u64 = 1 << 6;
const PERF_EVENT_IOC_DISABLE: libc::c_ulong = 0x2401;
const PERF_EVENT_IOC_RESET: libc::c_ulong = 0x2403;
const PERF_EVENT_IOC_MODIFY_ATTRIBUTES: libc::c_ulong = 0x4008_240B;

#[derive(Clone, Copy, PartialEq, Debug)]
enum Side {
    /// the rest of the aligned word that holds dest+n-1, and the whole next word: 8..=15 bytes from dest+n on
    After,
    /// the whole aligned word before the one that holds dest, and the start of that one: 8..=15 bytes up to dest-1
    Before,
}

/// Aligned (address, length) pieces, at most four, that cover exactly the watched window of `side`.
fn pieces(dest: usize, n: usize, side: Side) -> Vec<(usize, usize)> {
    fn fill(mut cur: usize, end: usize, out: &mut Vec<(usize, usize)>) {
        while cur < end {
            let mut l = 4;
            while cur % l != 0 || cur + l > end {
                l /= 2;
            }
            out.push((cur, l));
            cur += l;
        }
    }
    let mut v = Vec::with_capacity(4);
    match side {
        Side::After => {
            let a = dest + n;
            let b = (a + 7) & !7;
            fill(a, b, &mut v);
            v.push((b, 8));
        }
        Side::Before => {
            let s = dest & !7;
            v.push((s - 8, 8));
            fill(s, dest, &mut v);
        }
    }
    debug_assert!(v.len() <= 4);
    v
}

struct Watch {
    fds: [c_int; 4],
    live: [bool; 4],
    cur: Vec<(usize, usize)>,
    _parking: Box<[u64; 8]>,
}

impl Watch {
    fn attr(addr: usize, len: usize, disabled: bool) -> PerfAttr {
        let mut a: PerfAttr = unsafe { std::mem::zeroed() };
        a.type_ = PERF_TYPE_BREAKPOINT;
        a.size = std::mem::size_of::<PerfAttr>() as u32;
        a.bp_type = HW_BREAKPOINT_W;
        a.bp_addr = addr as u64;
        a.bp_len = len as u64;
        a.flags = ATTR_EXCLUDE_KERNEL | ATTR_EXCLUDE_HV | if disabled { ATTR_DISABLED } else { 0 };
        a
    }
    fn open() -> Result<Watch, String> {
        let parking = Box::new([0u64; 8]);
        let mut fds = [-1; 4];
        for (i, fd) in fds.iter_mut().enumerate() {
            let a = Self::attr(&parking[i] as *const u64 as usize, 8, true);
            // pid 0 / cpu -1: this thread, on whatever CPU it runs
            let r = unsafe { libc::syscall(libc::SYS_perf_event_open, &a as *const PerfAttr, 0, -1, -1, 0) };
            if r < 0 {
                return Err(format!(
                    "perf_event_open(PERF_TYPE_BREAKPOINT, W) for debug register {i} failed: {} (perf_event_paranoid={})",
                    std::io::Error::last_os_error(),
                    std::fs::read_to_string("/proc/sys/kernel/perf_event_paranoid").unwrap_or_default().trim()
                ));
            }
            *fd = r as c_int;
        }
        Ok(Watch { fds, live: [false; 4], cur: Vec::with_capacity(4), _parking: parking })
    }
    /// Move the watchpoints to `ps` and enable them; the remaining registers are disabled.
    fn arm(&mut self, ps: &[(usize, usize)]) -> Result<(), String> {
        for i in 0..4 {
            if let Some(&(addr, len)) = ps.get(i) {
                let mut a = Self::attr(addr, len, false);
                if unsafe { libc::ioctl(self.fds[i], PERF_EVENT_IOC_MODIFY_ATTRIBUTES, &mut a as *mut PerfAttr) } != 0 {
                    return Err(format!("PERF_EVENT_IOC_MODIFY_ATTRIBUTES({addr:#x}, len {len}) failed: {}", std::io::Error::last_os_error()));
                }
                self.live[i] = true;
            } else if self.live[i] {
                unsafe { libc::ioctl(self.fds[i], PERF_EVENT_IOC_DISABLE, 0) };
                self.live[i] = false;
            }
        }
        self.cur.clear();
        self.cur.extend_from_slice(ps);
        Ok(())
    }
    /// Positive control: a same-value store to the first and to the last byte of every armed
    /// piece counts exactly 1 on that piece and 0 on the others.
    fn control(&self) -> Result<(), String> {
        for (i, &(a, l)) in self.cur.iter().enumerate() {
            for b in [a, a + l - 1].into_iter().take(if l == 1 { 1 } else { 2 }) {
                let c0 = self.counts();
                unsafe { write_volatile(b as *mut u8, read_volatile(b as *const u8)) };
                let c1 = self.counts();
                if !(0..self.cur.len()).all(|j| c1[j] == c0[j] + (i == j) as u64) {
                    return Err(format!("positive control: a same-value store to {b:#x} moved the watchpoints {:?} from {c0:?} to {c1:?} (expected +1 on #{i} only)", self.cur));
                }
            }
        }
        Ok(())
    }
    fn disarm(&mut self) {
        for i in 0..4 {
            if self.live[i] {
                unsafe { libc::ioctl(self.fds[i], PERF_EVENT_IOC_DISABLE, 0) };
                self.live[i] = false;
            }
        }
    }
    fn reset(&self) {
        for i in 0..self.cur.len() {
            unsafe { libc::ioctl(self.fds[i], PERF_EVENT_IOC_RESET, 0) };
        }
    }
    fn count(&self, i: usize) -> u64 {
        let mut v = 0u64;
        let k = unsafe { libc::read(self.fds[i], &mut v as *mut u64 as *mut c_void, 8) };
        if k == 8 {
            v
        } else {
            u64::MAX
        }
    }
    fn counts(&self) -> [u64; 4] {
        let mut c = [0u64; 4];
        for (i, x) in c.iter_mut().enumerate().take(self.cur.len()) {
            *x = self.count(i);
        }
        c
    }
}
impl Drop for Watch {
    fn drop(&mut self) {
        for fd in self.fds {
            unsafe { libc::close(fd) };
        }
    }
}

// ---------------------------------------------------------------------------
// references: volatile byte loops, never a library call

#[inline(never)]
fn ref_copy(dst: &mut [u8], src: &[u8]) {
    assert!(dst.len() == src.len());
    for i in 0..src.len() {
        unsafe { write_volatile(dst.as_mut_ptr().add(i), read_volatile(src.as_ptr().add(i))) }
    }
}
#[inline(never)]
fn ref_fill(dst: &mut [u8], b: u8) {
    for i in 0..dst.len() {
        unsafe { write_volatile(dst.as_mut_ptr().add(i), b) }
    }
}
/// -1 / 0 / 1: bytes compared as `unsigned char`, first difference decides
#[inline(never)]
fn ref_cmp(a: &[u8], b: &[u8]) -> i32 {
    for i in 0..a.len() {
        let (x, y) = unsafe { (read_volatile(a.as_ptr().add(i)), read_volatile(b.as_ptr().add(i))) };
        if x != y {
            return if x < y { -1 } else { 1 };
        }
    }
    0
}
fn first_diff(a: &[u8], b: &[u8]) -> Option<usize> {
    if a == b {
        return None;
    }
    a.iter().zip(b.iter()).position(|(x, y)| x != y)
}

fn path_class(n: usize, dst: usize, src: usize, backward: bool) -> &'static str {
    if n < THRESHOLD {
        return if backward { "backward:byte-loop" } else { "forward:byte-loop" };
    }
    // bytes consumed to align the destination, then the source's alignment decides the word helper
    let src_mis = if backward {
        let k = (dst + n) & (WORD - 1);
        (src + n - k) & (WORD - 1)
    } else {
        let k = dst.wrapping_neg() & (WORD - 1);
        (src + k) & (WORD - 1)
    };
    match (backward, src_mis == 0) {
        (false, true) => "forward:aligned-words",
        (false, false) => "forward:misaligned-words",
        (true, true) => "backward:aligned-words",
        (true, false) => "backward:misaligned-words",
    }
}

// ---------------------------------------------------------------------------
// one case of each operation

fn begin(cx: &Ctx, r: &mut Report) {
    r.eval();
    r.nontrivial_unique();
    set_case(&cx.case);
}

fn case_value(cx: &Ctx) -> Value {
    serde_json::from_str(&cx.case).unwrap_or(Value::String(cx.case.clone()))
}

fn do_memcpy(cx: &mut Ctx, n: usize, dp: P, sp: P, r: &mut Report) {
    use std::fmt::Write;
    let dr = locate(&cx.a, dp, n);
    let sr = locate(&cx.s, sp, n);
    let (d, s) = (dr.bytes(), sr.bytes());
    d.copy_from_slice(&cx.cz[..dr.len]);
    d[dr.off..dr.off + n].copy_from_slice(&cx.npat[..n]);
    s.copy_from_slice(&cx.cz[7..7 + sr.len]);
    s[sr.off..sr.off + n].copy_from_slice(&cx.pat[..n]);
    cx.exp[..dr.len].copy_from_slice(d);
    ref_copy(&mut cx.exp[dr.off..dr.off + n], &s[sr.off..sr.off + n]);
    cx.exp2[..sr.len].copy_from_slice(s);
    cx.case.clear();
    let _ = write!(
        cx.case,
        r#"{{"op":"memcpy","n":{n},"dp":"{}","dm":{},"sp":"{}","sm":{}}}"#,
        dp.name(),
        dp.mis(),
        sp.name(),
        sp.mis()
    );
    let what = |cx: &Ctx| format!("memcpy(dest misaligned {}, src misaligned {}, n={n}) [{}]", dr.ptr() as usize & 15, sr.ptr() as usize & 15, cx.case);
    begin(cx, r);
    let ret = unsafe { (cx.f.memcpy)(dr.ptr(), sr.ptr(), n) };
    clear_case();
    r.outcome(path_class(n, dr.ptr() as usize, sr.ptr() as usize, false));
    if ret != dr.ptr() {
        r.violation("C08:memcpy:wrong-return", format!("{}: returned dest{:+}", what(cx), ret as isize - dr.ptr() as isize), case_value(cx));
    }
    check_dest(cx, "memcpy", &what(cx), dr, n, None, r);
    if let Some(i) = first_diff(s, &cx.exp2[..sr.len]) {
        r.violation(
            "C08:memcpy:source-modified",
            format!("{}: byte {} relative to src changed from {:#04x} to {:#04x}", what(cx), i as isize - sr.off as isize, cx.exp2[i], s[i]),
            case_value(cx),
        );
    }
}

/// Compare the destination window with `cx.exp`; `src_range`: region indices of a source that
/// shares the window (memmove), to name a change there `source-modified`.
fn check_dest(cx: &Ctx, op: &str, what: &str, dr: Region, n: usize, src_range: Option<(usize, usize)>, r: &mut Report) {
    let d = dr.bytes();
    let e = &cx.exp[..dr.len];
    if let Some(i) = first_diff(&d[dr.off..dr.off + n], &e[dr.off..dr.off + n]) {
        r.violation(
            &format!("C08:{op}:wrong-bytes"),
            format!("{what}: dest[{i}] = {:#04x}, the C definition gives {:#04x}", d[dr.off + i], e[dr.off + i]),
            case_value(cx),
        );
    }
    let outside = first_diff(&d[..dr.off], &e[..dr.off]).or_else(|| first_diff(&d[dr.off + n..], &e[dr.off + n..]).map(|i| i + dr.off + n));
    if let Some(i) = outside {
        let rel = i as isize - dr.off as isize;
        let in_src = src_range.is_some_and(|(lo, hi)| i >= lo && i < hi);
        let kind = if in_src { "source-modified" } else { "redzone-written" };
        r.violation(
            &format!("C08:{op}:{kind}"),
            format!(
                "{what}: byte at dest{rel:+} (outside the destination [0,{n}){}) changed from {:#04x} to {:#04x}",
                if in_src { ", inside the source" } else { "" },
                e[i],
                d[i]
            ),
            case_value(cx),
        );
    }
}

/// `d` = dest - src.  `p`: placement of the union span of both operands; for `Mid(dm)` the
/// destination's misalignment is `dm`.
fn do_memmove(cx: &mut Ctx, n: usize, p: P, d: isize, r: &mut Report) {
    use std::fmt::Write;
    let span = n + d.unsigned_abs();
    let mut reg = match p {
        P::Mid(dm) => {
            let lo_mis = if d >= 0 { (dm as isize - d).rem_euclid(16) as usize } else { dm };
            locate(&cx.a, P::Mid(lo_mis), span)
        }
        other => locate(&cx.a, other, span),
    };
    let (src_off, dst_off) = if d >= 0 { (reg.off, reg.off + d as usize) } else { (reg.off + d.unsigned_abs(), reg.off) };
    let w = reg.bytes();
    w.copy_from_slice(&cx.pat[..reg.len]);
    cx.exp[..reg.len].copy_from_slice(w);
    {
        let (exp, tmp) = (&mut cx.exp, &mut cx.tmp);
        ref_copy(&mut tmp[..n], &exp[src_off..src_off + n]);
        ref_copy(&mut exp[dst_off..dst_off + n], &tmp[..n]);
    }
    cx.case.clear();
    let _ = write!(cx.case, r#"{{"op":"memmove","n":{n},"p":"{}","dm":{},"d":{d}}}"#, p.name(), p.mis());
    begin(cx, r);
    let (dptr, sptr) = unsafe { (reg.base.add(dst_off), reg.base.add(src_off)) };
    let ret = unsafe { (cx.f.memmove)(dptr, sptr, n) };
    clear_case();
    let backward = d >= 0 && (d as usize) < n;
    r.outcome(path_class(n, dptr as usize, sptr as usize, backward));
    r.outcome(if d == 0 {
        "overlap:same"
    } else if d.unsigned_abs() >= n {
        "overlap:disjoint"
    } else if d > 0 {
        "overlap:dest-above-src"
    } else {
        "overlap:dest-below-src"
    });
    let what = format!("memmove(dest misaligned {}, src = dest{:+}, n={n}) [{}]", dptr as usize & 15, -d, cx.case);
    if ret != dptr {
        r.violation("C08:memmove:wrong-return", format!("{what}: returned dest{:+}", ret as isize - dptr as isize), case_value(cx));
    }
    reg.off = dst_off;
    check_dest(cx, "memmove", &what, reg, n, Some((src_off, src_off + n)), r);
}

fn do_memset(cx: &mut Ctx, n: usize, p: P, c: c_int, r: &mut Report) {
    use std::fmt::Write;
    let dr = locate(&cx.a, p, n);
    let d = dr.bytes();
    let b = c as u8;
    d.copy_from_slice(&cx.cz[..dr.len]);
    d[dr.off..dr.off + n].fill(!b);
    cx.exp[..dr.len].copy_from_slice(d);
    ref_fill(&mut cx.exp[dr.off..dr.off + n], b);
    cx.case.clear();
    let _ = write!(cx.case, r#"{{"op":"memset","n":{n},"p":"{}","dm":{},"c":{c}}}"#, p.name(), p.mis());
    begin(cx, r);
    let ret = unsafe { (cx.f.memset)(dr.ptr(), c, n) };
    clear_case();
    r.outcome(if n < THRESHOLD { "memset:byte-loop" } else { "memset:words" });
    let what = format!("memset(s misaligned {}, c={c:#x}, n={n}) [{}]", dr.ptr() as usize & 15, cx.case);
    if ret != dr.ptr() {
        r.violation("C08:memset:wrong-return", format!("{what}: returned s{:+}", ret as isize - dr.ptr() as isize), case_value(cx));
    }
    check_dest(cx, "memset", &what, dr, n, None, r);
}

/// `pos`: index of the first differing byte, or -1 for equal operands; there the first
/// operand holds `x`, the second `y`.  `tail`: every later byte differs the other way round
/// (so only the FIRST difference gives the right sign).  Bytes just outside `[0,n)` differ
/// too (so looking past either end breaks the equal case).  Both argument orders are called.
#[allow(clippy::too_many_arguments)]
fn do_cmp(cx: &mut Ctx, op: &'static str, n: usize, pos: isize, x: u8, y: u8, tail: bool, pa: P, pb: P, r: &mut Report) {
    use std::fmt::Write;
    let ar = locate(&cx.s, pa, n);
    let br = locate(&cx.a, pb, n);
    let (a, b) = (ar.bytes(), br.bytes());
    a.copy_from_slice(&cx.cz[..ar.len]);
    b.copy_from_slice(&cx.npat[..br.len]);
    // make sure the bytes adjacent to the operands differ pairwise
    for k in 1..=8usize {
        if ar.off >= k && br.off >= k && a[ar.off - k] == b[br.off - k] {
            b[br.off - k] = !a[ar.off - k];
        }
        let (ia, ib) = (ar.off + n + k - 1, br.off + n + k - 1);
        if ia < ar.len && ib < br.len && a[ia] == b[ib] {
            b[ib] = !a[ia];
        }
    }
    a[ar.off..ar.off + n].copy_from_slice(&cx.pat[..n]);
    b[br.off..br.off + n].copy_from_slice(&cx.pat[..n]);
    if pos >= 0 {
        let q = pos as usize;
        a[ar.off + q] = x;
        b[br.off + q] = y;
        if tail {
            a[ar.off + q + 1..ar.off + n].fill(y);
            b[br.off + q + 1..br.off + n].fill(x);
        }
    }
    let want = ref_cmp(&a[ar.off..ar.off + n], &b[br.off..br.off + n]);
    cx.case.clear();
    let _ = write!(
        cx.case,
        r#"{{"op":"{op}","n":{n},"pos":{pos},"x":{x},"y":{y},"tail":{tail},"pa":"{}","am":{},"pb":"{}","bm":{}}}"#,
        pa.name(),
        pa.mis(),
        pb.name(),
        pb.mis()
    );
    let f = if op == "memcmp" { cx.f.memcmp } else { cx.f.bcmp };
    for swapped in [false, true] {
        begin(cx, r);
        let (got, want) = if swapped { (unsafe { f(br.ptr(), ar.ptr(), n) }, -want) } else { (unsafe { f(ar.ptr(), br.ptr(), n) }, want) };
        clear_case();
        r.outcome(match (op == "memcmp", want) {
            (true, -1) => "memcmp:less",
            (true, 0) => "memcmp:equal",
            (true, _) => "memcmp:greater",
            (false, 0) => "bcmp:equal",
            (false, _) => "bcmp:different",
        });
        let ok = if op == "memcmp" { got.signum() == want } else { (got == 0) == (want == 0) };
        if !ok {
            let (key, law) = if op == "memcmp" {
                ("C08:memcmp:wrong-sign", format!("sign {want}"))
            } else {
                ("C08:bcmp:wrong-zeroness", (if want == 0 { "zero" } else { "non-zero" }).to_string())
            };
            r.violation(
                key,
                format!(
                    "{op}({}, n={n}) = {got}, the C definition gives {law}; first difference at {pos} ({}), operands misaligned {}/{} [{}]",
                    if swapped { "second, first" } else { "first, second" },
                    if pos < 0 { "none".to_string() } else { format!("{x:#04x} vs {y:#04x}") },
                    ar.ptr() as usize & 15,
                    br.ptr() as usize & 15,
                    cx.case
                ),
                case_value(cx),
            );
        }
    }
}

// ---------------------------------------------------------------------------
// enumeration units: one (operation, n), split in the placements with canaries (`Mode::Canary`,
// cannot fault unless the code under test runs wild) and those with an operand against an
// inaccessible page (`Mode::Guard`, an out-of-range access is a fault that ends the shard).
// The two run in different shards so that a fault does not hide the canary findings.

const GUARDS: [P; 2] = [P::End, P::Start];

#[derive(Clone, Copy, PartialEq, Debug)]
enum Mode {
    Canary,
    Guard,
}

fn unit_memcpy(cx: &mut Ctx, n: usize, mode: Mode, mis: std::ops::Range<usize>, r: &mut Report) {
    if mode == Mode::Canary {
        for dm in mis {
            for sm in 0..16 {
                do_memcpy(cx, n, P::Mid(dm), P::Mid(sm), r);
            }
        }
        return;
    }
    for g in GUARDS {
        for m in mis.clone() {
            do_memcpy(cx, n, P::Mid(m), g, r);
            do_memcpy(cx, n, g, P::Mid(m), r);
        }
        if mis.start == 0 {
            for g2 in GUARDS {
                do_memcpy(cx, n, g, g2, r);
            }
        }
    }
}

fn unit_memmove(cx: &mut Ctx, n: usize, dists: &[isize], mode: Mode, mis: std::ops::Range<usize>, r: &mut Report) {
    for &d in dists {
        if mode == Mode::Canary {
            for dm in mis.clone() {
                do_memmove(cx, n, P::Mid(dm), d, r);
            }
        } else {
            for g in GUARDS {
                do_memmove(cx, n, g, d, r);
            }
        }
    }
}

fn all_dists(n: usize) -> Vec<isize> {
    // simplest first: 0, +1, -1, +2, ...
    let m = (n + 16) as isize;
    let mut v = vec![0];
    for k in 1..=m {
        v.push(k);
        v.push(-k);
    }
    v
}

fn ladder_dists(n: usize) -> Vec<isize> {
    let n = n as isize;
    let mut v: Vec<isize> = vec![0];
    for k in [1, 7, 8, 9, 16, n / 2, n - 9, n - 8, n - 1, n, n + 1, n + 16] {
        for s in [k, -k] {
            if !v.contains(&s) {
                v.push(s);
            }
        }
    }
    v
}

/// `wide`: also pass the fill byte with non-zero high bits and as a negative int
/// (the int argument is converted to unsigned char: high bits must be ignored)
fn unit_memset(cx: &mut Ctx, n: usize, fills: &[u8], wide: bool, mode: Mode, mis: std::ops::Range<usize>, r: &mut Report) {
    for &b in fills {
        let cs = [b as c_int, (b as u32 | 0x5a3c_9600) as c_int, b as c_int - 256];
        for &c in &cs[..if wide { 3 } else { 1 }] {
            if mode == Mode::Canary {
                for dm in mis.clone() {
                    do_memset(cx, n, P::Mid(dm), c, r);
                }
            } else {
                for g in GUARDS {
                    do_memset(cx, n, g, c, r);
                }
            }
        }
    }
}

fn unit_cmp(cx: &mut Ctx, n: usize, positions: &[isize], pairs: &[(u8, u8)], mis: &[usize], mode: Mode, r: &mut Report) {
    for op in ["memcmp", "bcmp"] {
        for &pos in positions {
            let pairs: &[(u8, u8)] = if pos < 0 { &[(0, 0)] } else { pairs };
            for &(x, y) in pairs {
                for tail in [false, true] {
                    if tail && (pos < 0 || pos as usize + 1 >= n) {
                        continue;
                    }
                    if mode == Mode::Canary {
                        for &am in mis {
                            for &bm in mis {
                                do_cmp(cx, op, n, pos, x, y, tail, P::Mid(am), P::Mid(bm), r);
                            }
                        }
                    } else {
                        for g in GUARDS {
                            for g2 in GUARDS {
                                do_cmp(cx, op, n, pos, x, y, tail, g, g2, r);
                            }
                        }
                    }
                }
            }
        }
    }
}

/// Replay filter of the watchpoint pass: only this source misalignment / distance / fill.
#[derive(Clone, Copy, Default)]
struct WSel {
    sm: Option<usize>,
    d: Option<isize>,
    c: Option<c_int>,
}

const WATCH_FILLS: &[u8] = &[0x00, 0xa7];

fn watch_margin(nmax: usize) -> usize {
    (2 * nmax + 16 + 2 * RED + 15) & !15
}
/// arena bytes a watch frame for lengths up to `nmax` needs
fn watch_span(nmax: usize) -> usize {
    2 * watch_margin(nmax) + 64
}

/// One watchpoint configuration.  Moving a hardware watchpoint is expensive (and serialised
/// machine-wide), so the watchpoints stay where they are and the operands move: the four debug
/// registers are put once on the bytes just outside a fixed ANCHOR address `A` with
/// `A mod 16 == e`; then for every n (x source misalignment / distance / fill)
///   side After : dest = A - n  (the range ends at the anchor; watched: A .. end of the next aligned word, 8..=15 bytes)
///   side Before: dest = A      (the range starts at the anchor; watched: previous aligned word .. A-1, 8..=15 bytes)
/// Over e in 0..16 this gives every (n, destination misalignment) on both sides.  While the
/// watchpoints are live the harness itself writes only inside `[dest, dest+n)` (prefill,
/// restore) and into the other arena; the counters are read after every call, any increase is a
/// store of the function under test outside its destination, whatever value it stored.  The
/// positive control (same-value stores by the harness to the first and last byte of every
/// watched piece must count exactly 1 each) runs when the configuration is armed and again
/// before it is left: a watchpoint that was not live is a machinery failure, not a pass.
#[allow(clippy::too_many_arguments)]
fn watch_config(cx: &mut Ctx, op: Op, side: Side, e: usize, ns: &[usize], ladder: bool, sel: WSel, r: &mut Report) {
    use std::fmt::Write;
    if cx.wp_fail.is_some() || ns.is_empty() {
        return;
    }
    let nmax = *ns.iter().max().unwrap();
    let m = watch_margin(nmax);
    assert!(2 * m + 32 <= cx.a.capacity(), "watch frame does not fit the arena");
    let start = cx.a.start_ptr();
    let frame_len = 2 * m + 32;
    let frame = unsafe { std::slice::from_raw_parts_mut(start, frame_len) };
    // the frame's resting content, by offset from the arena start
    let table: &[u8] = if op == Op::Memmove { &cx.pat } else { &cx.cz };
    let table: &'static [u8] = unsafe { std::slice::from_raw_parts(table.as_ptr(), table.len()) }; // tables are never resized
    frame.copy_from_slice(&table[..frame_len]);
    let a_off = m + e;
    let anchor = start as usize + a_off;
    debug_assert!(anchor % 16 == e);
    let ps = pieces(anchor, 0, side);
    {
        let w = cx.watch.as_mut().expect("watch shard without watchpoints");
        if let Err(err) = w.arm(&ps).and_then(|()| w.control()) {
            cx.wp_fail = Some(format!("arming {side:?} of anchor ..{:x}: {err}", anchor & 0xff));
            return;
        }
    }
    let side_name = if side == Side::After { "after" } else { "before" };
    let mut last = cx.watch.as_ref().unwrap().counts();
    for &n in ns {
        let d_off = if side == Side::After { a_off - n } else { a_off };
        let dptr = unsafe { start.add(d_off) };
        let dm = dptr as usize & 15;
        // parameter list of this (n, dm)
        let params: Vec<isize> = match op {
            Op::Memcpy => sel.sm.map(|x| vec![x as isize]).unwrap_or_else(|| (0..16).collect()),
            Op::Memmove => sel.d.map(|x| vec![x]).unwrap_or_else(|| if ladder { ladder_dists(n) } else { all_dists(n) }),
            Op::Memset => sel.c.map(|x| vec![x as isize]).unwrap_or_else(|| WATCH_FILLS.iter().map(|&b| b as isize).collect()),
            Op::Cmp => vec![],
        };
        for q in params {
            let dest = &mut frame[d_off..d_off + n];
            let mut src_range = None;
            cx.case.clear();
            // set-up: writes only inside dest and in the other arena
            let (opname, ret) = match op {
                Op::Memcpy => {
                    let sr = locate(&cx.s, P::Mid(q as usize), n);
                    let sb = sr.bytes();
                    sb.copy_from_slice(&cx.cz[7..7 + sr.len]);
                    sb[sr.off..sr.off + n].copy_from_slice(&cx.pat[..n]);
                    ref_copy(&mut cx.exp[..n], &sb[sr.off..sr.off + n]);
                    dest.copy_from_slice(&cx.npat[..n]);
                    let _ = write!(cx.case, r#"{{"op":"memcpy","n":{n},"dp":"mid","dm":{dm},"sp":"mid","sm":{q},"wp":"{side_name}"}}"#);
                    begin(cx, r);
                    ("memcpy", unsafe { (cx.f.memcpy)(dptr, sr.ptr(), n) })
                }
                Op::Memmove => {
                    let s_off = (d_off as isize - q) as usize;
                    src_range = Some((s_off, s_off + n));
                    {
                        let (exp, tmp) = (&mut cx.exp, &mut cx.tmp);
                        ref_copy(&mut tmp[..n], &table[s_off..s_off + n]);
                        ref_copy(&mut exp[..n], &tmp[..n]);
                    }
                    let _ = write!(cx.case, r#"{{"op":"memmove","n":{n},"p":"mid","dm":{dm},"d":{q},"wp":"{side_name}"}}"#);
                    begin(cx, r);
                    ("memmove", unsafe { (cx.f.memmove)(dptr, start.add(s_off), n) })
                }
                Op::Memset => {
                    let c = q as c_int;
                    dest.fill(!(c as u8));
                    ref_fill(&mut cx.exp[..n], c as u8);
                    let _ = write!(cx.case, r#"{{"op":"memset","n":{n},"p":"mid","dm":{dm},"c":{c},"wp":"{side_name}"}}"#);
                    begin(cx, r);
                    ("memset", unsafe { (cx.f.memset)(dptr, c, n) })
                }
                Op::Cmp => unreachable!(),
            };
            let now = cx.watch.as_ref().unwrap().counts();
            clear_case();
            let hits: Vec<String> = ps
                .iter()
                .enumerate()
                .filter(|&(i, _)| now[i] != last[i])
                .map(|(i, &(a, l))| {
                    format!("{} store(s) into dest{:+}..dest{:+}", now[i].wrapping_sub(last[i]), a as isize - dptr as isize, (a + l) as isize - dptr as isize)
                })
                .collect();
            last = now;
            let what = format!("{opname} with dest misaligned {dm}, n={n} [{}]", cx.case);
            if hits.is_empty() {
                r.outcome(if side == Side::After { "watch:after:no-store" } else { "watch:before:no-store" });
            } else {
                r.outcome("watch:store-outside-range");
                r.violation(
                    &format!("C08:{opname}:writes-outside-range"),
                    format!(
                        "{what}: hardware write watchpoints saw {} - outside the destination dest+0..dest{n:+}; the bytes may hold the same values afterwards, but the function stored to them",
                        hits.join(", ")
                    ),
                    case_value(cx),
                );
            }
            // the value oracle, on the destination and RED bytes on either side
            if ret != dptr {
                r.violation(&format!("C08:{opname}:wrong-return"), format!("{what}: returned dest{:+}", ret as isize - dptr as isize), case_value(cx));
            }
            if let Some(i) = first_diff(&frame[d_off..d_off + n], &cx.exp[..n]) {
                r.violation(
                    &format!("C08:{opname}:wrong-bytes"),
                    format!("{what}: dest[{i}] = {:#04x}, the C definition gives {:#04x}", frame[d_off + i], cx.exp[i]),
                    case_value(cx),
                );
            }
            let (lo, hi) = (d_off - RED, d_off + n + RED);
            let outside = first_diff(&frame[lo..d_off], &table[lo..d_off])
                .map(|i| lo + i)
                .or_else(|| first_diff(&frame[d_off + n..hi], &table[d_off + n..hi]).map(|i| d_off + n + i));
            if let Some(i) = outside {
                let in_src = src_range.is_some_and(|(lo, hi)| i >= lo && i < hi);
                r.violation(
                    &format!("C08:{opname}:{}", if in_src { "source-modified" } else { "redzone-written" }),
                    format!("{what}: byte at dest{:+} (outside the destination) changed from {:#04x} to {:#04x}", i as isize - d_off as isize, table[i], frame[i]),
                    case_value(cx),
                );
                // put the frame back (this touches watched bytes: resynchronise the counters)
                frame[lo..hi].copy_from_slice(&table[lo..hi]);
                last = cx.watch.as_ref().unwrap().counts();
            }
            // restore: writes only inside dest
            frame[d_off..d_off + n].copy_from_slice(&table[d_off..d_off + n]);
        }
    }
    let w = cx.watch.as_mut().unwrap();
    if let Err(err) = w.control() {
        cx.wp_fail = Some(format!("leaving {side:?} of anchor ..{:x}: {err}", anchor & 0xff));
    }
    w.disarm();
}

/// Watchpoint pass of one shard: both sides x the 16 anchor alignments x every n of `ns`.
fn unit_watch(cx: &mut Ctx, op: Op, ns: &[usize], ladder: bool, r: &mut Report) {
    for side in [Side::After, Side::Before] {
        for e in 0..16 {
            watch_config(cx, op, side, e, ns, ladder, WSel::default(), r);
        }
    }
}

/// End of a watch shard: an untrustworthy watchpoint is a machinery failure, never a pass.
fn watch_verdict(cx: &Ctx, r: &mut Report) {
    if let Some(e) = &cx.wp_fail {
        eprintln!("MACHINERY: hardware watchpoints: {e}");
        r.cap(format!("hardware write watchpoints not usable: {e}"));
        r.notes.push("machinery-failure".into());
    }
}

/// Cut `0..=nmax` into at most `k` contiguous ranges of about equal `cost`, smallest n first.
fn chunks(nmax: usize, k: usize, cost: impl Fn(usize) -> u64) -> Vec<(usize, usize)> {
    let total: u64 = (0..=nmax).map(&cost).sum();
    let mut out = Vec::new();
    let (mut lo, mut acc, mut done) = (0usize, 0u64, 0u64);
    for n in 0..=nmax {
        acc += cost(n);
        let left = (k - out.len()) as u64;
        if n == nmax || (left > 1 && acc * left >= total - done) {
            out.push((lo, n));
            lo = n + 1;
            done += acc;
            acc = 0;
        }
    }
    out
}

fn all_positions(n: usize) -> Vec<isize> {
    let mut v = vec![-1];
    v.extend(0..n as isize);
    v
}

fn ladder_positions(n: usize) -> Vec<isize> {
    let n = n as isize;
    let mut v = vec![-1];
    for p in [0, 1, 7, 8, n / 2, n - 9, n - 2, n - 1] {
        if p >= 0 && p < n && !v.contains(&p) {
            v.push(p);
        }
    }
    v
}

// ---------------------------------------------------------------------------

#[derive(Clone, Copy, PartialEq, Debug)]
enum Op {
    Memcpy,
    Memmove,
    Memset,
    Cmp,
}

struct Bounds {
    n_copy: usize,
    n_move: usize,
    n_set: usize,
    n_cmp: usize,
    fills: Vec<u8>,
    /// watchpoint pass: n bounds for memcpy, memmove, memset
    w_copy: usize,
    w_move: usize,
    w_set: usize,
}

fn c08(args: &Args, ld: &Loaded) -> Report {
    let mut pre = Report::new();
    let thr = source_threshold(&ld.src_path);
    let window = match thr {
        Some(t) => 2 * t + WORD,
        None => {
            pre.cap(format!("WORD_COPY_THRESHOLD not found in {}: the exhaustive window cannot be tied to the code's thresholds", ld.src_path));
            2 * THRESHOLD + WORD
        }
    };
    if thr.is_some_and(|t| t != THRESHOLD) {
        pre.note(format!("threshold of the compiled source is {:?} (harness was written for {THRESHOLD}); window widened accordingly", thr));
    }
    // the exhaustive window always covers 0..=2*threshold+word and (at least) as much again
    let floor = 2 * window;
    let b = if args.thorough {
        Bounds { n_copy: floor.max(4200), n_move: floor.max(1024), n_set: floor.max(1024), n_cmp: floor.max(256), fills: (0..=255).collect(), w_copy: floor.max(512), w_move: floor.max(256), w_set: floor.max(512) }
    } else {
        Bounds { n_copy: floor, n_move: floor, n_set: floor, n_cmp: floor.min(64).max(window + 8), fills: FILLS_QUICK.to_vec(), w_copy: floor, w_move: floor, w_set: floor }
    };
    let f = ld.syms;
    let all_mis: Vec<usize> = (0..16).collect();

    // exhaustive part: per operation, contiguous ranges of n of about equal cost, smallest n first
    // (so the case kept under a violation key is the one with the smallest n)
    let k = if args.thorough { 48 } else { 12 };
    let nfill = b.fills.len() as u64;
    let mut items = Vec::new();
    for mode in [Mode::Canary, Mode::Guard] {
        let k = if mode == Mode::Canary { k } else { k / 4 };
        for (lo, hi) in chunks(b.n_copy, k, |n| 256 * (n as u64 + 300)) {
            items.push(isolated(format!("memcpy-{mode:?}-{lo}..={hi}"), move || {
                let mut r = Report::new();
                let mut cx = Ctx::new(f, hi + 64);
                for n in lo..=hi {
                    unit_memcpy(&mut cx, n, mode, 0..16, &mut r);
                }
                if lo == 0 {
                    r.sample(json!({"op":"memcpy","n":17,"dp":"mid","dm":3,"sp":"mid","sm":5}));
                    r.sample(json!({"op":"memcpy","n":33,"dp":"mid","dm":9,"sp":"end","sm":0}));
                }
                r
            }));
        }
        for (lo, hi) in chunks(b.n_move, k, |n| (2 * n as u64 + 33) * 16 * (3 * n as u64 + 400)) {
            items.push(isolated(format!("memmove-{mode:?}-{lo}..={hi}"), move || {
                let mut r = Report::new();
                let mut cx = Ctx::new(f, 2 * hi + 64);
                for n in lo..=hi {
                    unit_memmove(&mut cx, n, &all_dists(n), mode, 0..16, &mut r);
                }
                if lo == 0 {
                    r.sample(json!({"op":"memmove","n":24,"p":"mid","dm":1,"d":5}));
                    r.sample(json!({"op":"memmove","n":40,"p":"end","dm":0,"d":-3}));
                }
                r
            }));
        }
        for (lo, hi) in chunks(b.n_set, k, |n| nfill * 48 * (n as u64 + 300)) {
            let fills = b.fills.clone();
            items.push(isolated(format!("memset-{mode:?}-{lo}..={hi}"), move || {
                let mut r = Report::new();
                let mut cx = Ctx::new(f, hi + 64);
                for n in lo..=hi {
                    unit_memset(&mut cx, n, &fills, true, mode, 0..16, &mut r);
                }
                if lo == 0 {
                    r.sample(json!({"op":"memset","n":33,"p":"mid","dm":7,"c":128}));
                }
                r
            }));
        }
        for (lo, hi) in chunks(b.n_cmp, k, |n| (n as u64 + 1) * (n as u64 + 300)) {
            let all_mis = all_mis.clone();
            items.push(isolated(format!("memcmp+bcmp-{mode:?}-{lo}..={hi}"), move || {
                let mut r = Report::new();
                let mut cx = Ctx::new(f, hi + 64);
                for n in lo..=hi {
                    unit_cmp(&mut cx, n, &all_positions(n), PAIRS, &all_mis, mode, &mut r);
                }
                if lo == 0 {
                    r.sample(json!({"op":"memcmp","n":9,"pos":4,"x":127,"y":128,"tail":true,"pa":"mid","am":2,"pb":"mid","bm":11}));
                    r.sample(json!({"op":"bcmp","n":16,"pos":-1,"x":0,"y":0,"tail":false,"pa":"end","am":0,"pb":"end","bm":0}));
                }
                r
            }));
        }
    }

    // watchpoint part: detects STORES outside the destination even when they leave the values unchanged
    let kw = if args.thorough { 32 } else { 8 };
    for (op, lim, kk) in [(Op::Memcpy, b.w_copy, kw / 2), (Op::Memmove, b.w_move, kw), (Op::Memset, b.w_set, kw / 4)] {
        let cost = move |n: usize| match op {
            Op::Memmove => (2 * n as u64 + 33) * (n as u64 + 400),
            _ => n as u64 + 400,
        };
        for (lo, hi) in chunks(lim, kk, cost) {
            items.push(isolated(format!("watch-{op:?}-{lo}..={hi}"), move || {
                let mut r = Report::new();
                let mut cx = Ctx::new(f, watch_span(hi));
                cx.enable_watch();
                let ns: Vec<usize> = (lo..=hi).collect();
                unit_watch(&mut cx, op, &ns, false, &mut r);
                if lo == 0 {
                    r.sample(match op {
                        Op::Memcpy => json!({"op":"memcpy","n":21,"dp":"mid","dm":3,"sp":"mid","sm":11,"wp":"after"}),
                        Op::Memmove => json!({"op":"memmove","n":19,"p":"mid","dm":5,"d":-24,"wp":"after"}),
                        _ => json!({"op":"memset","n":27,"p":"mid","dm":6,"c":167,"wp":"before"}),
                    });
                }
                watch_verdict(&cx, &mut r);
                r
            }));
        }
    }
    for &n in LADDER {
        for (op, lim) in [(Op::Memcpy, b.w_copy), (Op::Memmove, b.w_move), (Op::Memset, b.w_set)] {
            if n <= lim {
                continue;
            }
            items.push(isolated(format!("ladder-watch-{op:?}-{n}"), move || {
                let mut r = Report::new();
                let mut cx = Ctx::new(f, watch_span(n));
                cx.enable_watch();
                unit_watch(&mut cx, op, &[n], true, &mut r);
                watch_verdict(&cx, &mut r);
                r
            }));
        }
    }

    // ladder part (a fixed sample of large sizes, NOT exhaustive in n): shards per (op, n[, quarter of the misalignments])
    let lad_mis: Vec<usize> = vec![0, 1, 7, 8, 15];
    for &n in LADDER {
        let quarters: &[(usize, usize)] = if n >= 65535 { &[(0, 4), (4, 8), (8, 12), (12, 16)] } else { &[(0, 16)] };
        for (op, lim) in [(Op::Memcpy, b.n_copy), (Op::Memmove, b.n_move), (Op::Memset, b.n_set), (Op::Cmp, b.n_cmp)] {
            if n <= lim {
                continue; // already inside this operation's exhaustive window
            }
            for mode in [Mode::Canary, Mode::Guard] {
                for &(lo, hi) in quarters {
                    if lo != 0 && (op == Op::Cmp || (mode == Mode::Guard && op != Op::Memcpy)) {
                        continue;
                    }
                    let lad_mis = lad_mis.clone();
                    items.push(isolated(format!("ladder-{op:?}-{mode:?}-{n}-{lo}"), move || {
                        let mut r = Report::new();
                        let mut cx = Ctx::new(f, 2 * n + 64);
                        match op {
                            Op::Memcpy => unit_memcpy(&mut cx, n, mode, lo..hi, &mut r),
                            Op::Memmove => unit_memmove(&mut cx, n, &ladder_dists(n), mode, lo..hi, &mut r),
                            Op::Memset => unit_memset(&mut cx, n, FILLS_QUICK, false, mode, lo..hi, &mut r),
                            Op::Cmp => unit_cmp(&mut cx, n, &ladder_positions(n), &[(0, 1), (255, 0)], &lad_mis, mode, &mut r),
                        }
                        r
                    }));
                }
            }
        }
    }

    if std::env::var_os("H_MEM_TIMING").is_some() {
        items = items
            .into_iter()
            .map(|it| {
                let name = it.name.clone();
                let work = it.work;
                isolated(it.name, move || {
                    let t = now();
                    let r = work();
                    eprintln!("{:8.3}s {:>10} calls  {name}", t.elapsed().as_secs_f64(), r.evaluations);
                    r
                })
            })
            .collect();
    }
    let mut r = run_isolated(items, &args.out, "C08");
    r.merge(pre);
    for n in &ld.notes {
        r.note(n.clone());
    }
    r.note(format!("code under test: {} compiled from {}", ld.so_path, ld.src_path));
    if ld.src_path != REPO_SRC {
        // only happens when memsyms was built with MEMSYMS_SRC set (defect-injection demonstrations)
        r.cap(format!("the object under test was compiled from {} instead of {REPO_SRC}: this run says nothing about the repository", ld.src_path));
    }
    r.rule = format!(
        "EXHAUSTIVE part: memcpy every n in 0..={} x every destination misalignment 0..=15 x every source misalignment 0..=15 (operands in separate buffers with canaries), \
         plus each operand against a guard page (ending at / starting after a PROT_NONE page) with the other at every misalignment; \
         memmove every n in 0..={} x every destination misalignment x every distance dest-src in -(n+16)..=n+16 inside one buffer, plus the union span against a guard page at either side; \
         memset every n in 0..={} x every misalignment (+ both guard placements) x fill bytes {} each passed as b, b|0x5a3c9600 and b-256; \
         memcmp and bcmp every n in 0..={} x every position of the first differing byte (and none) x byte pairs {{0/1,0/255,127/128,255/0}} x {{identical tail, tail differing the other way}} \
         x every misalignment pair 0..=15 x 0..=15 (+ four guard placements), both argument orders. The compiled source has WORD_COPY_THRESHOLD={:?}, word={WORD}: 2*threshold+word={window}. \
         WATCHPOINT part (detects stores outside the destination that leave the values unchanged, e.g. a word read-modify-write at an end of the range): \
         memcpy every n in 0..={wc} x 16 x 16 misalignments, memmove every n in 0..={wm} x 16 destination misalignments x every distance -(n+16)..=n+16, memset every n in 0..={ws} x 16 misalignments x fills {{0,0xa7}} \
         (and the ladder sizes beyond, memmove there with the ladder distances), each called twice with the thread's four hardware write watchpoints (perf_event_open PERF_TYPE_BREAKPOINT, user mode) \
         once on dest+n .. end of the following aligned word (8..=15 bytes) and once on the preceding aligned word .. dest-1 (8..=15 bytes); the counters are read after every call and any counted store is a violation; \
         the watchpoints stay fixed around an anchor address per (side, anchor alignment 0..=15) and the destination is moved to end/start at it; same-value stores by the harness to the first and last byte of every watched piece must count exactly 1 \
         both before and after the calls of a configuration, and every shard first calibrates (correct copy counts 0, same-value store to each watched byte counts 1, straddling aligned word rewrite counts), else the run is a machinery failure. \
         Stores further than that from the destination are only caught by the canaries/guard pages, i.e. when they change a value or fault. \
         LADDER part (a fixed sample, not exhaustive in n): n in {:?} (those beyond the exhaustive window) with memcpy at all 16x16 misalignments + guard placements, \
         memmove at all 16 destination misalignments x distances {{0,+-1,+-7,+-8,+-9,+-16,+-n/2,+-(n-9),+-(n-8),+-(n-1),+-n,+-(n+1),+-(n+16)}}, memset at all 16 misalignments x fills {{0,1,0x7f,0x80,0xff}}, \
         memcmp/bcmp at misalignments {{0,1,7,8,15}}^2, positions {{none,0,1,7,8,n/2,n-9,n-2,n-1}}, pairs {{0/1,255/0}}. \
         Every call of a function under test is one evaluation; each (operation, parameters, placement, argument order) is generated exactly once, all are non-trivial \
         (n=0 checks that nothing is touched).",
        b.n_copy,
        b.n_move,
        b.n_set,
        if b.fills.len() == 256 { "0..=255".to_string() } else { format!("{:02x?}", b.fills) },
        b.n_cmp,
        thr,
        LADDER,
        wc = b.w_copy,
        wm = b.w_move,
        ws = b.w_set
    );
    r.bound("n_max_watch_memcpy", b.w_copy);
    r.bound("n_max_watch_memmove", b.w_move);
    r.bound("n_max_watch_memset", b.w_set);
    r.bound("n_max_memcpy", b.n_copy);
    r.bound("n_max_memmove", b.n_move);
    r.bound("n_max_memset", b.n_set);
    r.bound("n_max_memcmp_bcmp", b.n_cmp);
    r.bound("threshold_window", window);
    r.bound("fill_bytes", b.fills.len());
    r.bound("ladder", json!(LADDER));
    r.bound("red_zone_bytes", RED);
    r
}

// ---------------------------------------------------------------------------

fn run_case(cx: &mut Ctx, v: &Value, r: &mut Report) {
    let u = |k: &str| v[k].as_u64().unwrap_or(0) as usize;
    let i = |k: &str| v[k].as_i64().unwrap_or(0);
    let s = |k: &str| v[k].as_str().unwrap_or("mid").to_string();
    let n = u("n");
    if let Some(side) = v["wp"].as_str() {
        let side = if side == "before" { Side::Before } else { Side::After };
        let dm = u("dm") & 15;
        let e = if side == Side::After { (dm + n) & 15 } else { dm };
        let (op, sel) = match v["op"].as_str().unwrap_or("") {
            "memcpy" => (Op::Memcpy, WSel { sm: Some(u("sm") & 15), ..Default::default() }),
            "memmove" => (Op::Memmove, WSel { d: Some(i("d") as isize), ..Default::default() }),
            "memset" => (Op::Memset, WSel { c: Some(i("c") as c_int), ..Default::default() }),
            other => panic!("replay: no watchpoint pass for {other:?}"),
        };
        cx.enable_watch();
        watch_config(cx, op, side, e, &[n], false, sel, r);
        return;
    }
    match v["op"].as_str().unwrap_or("") {
        "memcpy" => do_memcpy(cx, n, P::parse(&s("dp"), u("dm")), P::parse(&s("sp"), u("sm")), r),
        "memmove" => do_memmove(cx, n, P::parse(&s("p"), u("dm")), i("d") as isize, r),
        "memset" => do_memset(cx, n, P::parse(&s("p"), u("dm")), i("c") as c_int, r),
        op @ ("memcmp" | "bcmp") => {
            let op = if op == "memcmp" { "memcmp" } else { "bcmp" };
            do_cmp(
                cx,
                op,
                n,
                i("pos") as isize,
                u("x") as u8,
                u("y") as u8,
                v["tail"].as_bool().unwrap_or(false),
                P::parse(&s("pa"), u("am")),
                P::parse(&s("pb"), u("bm")),
                r,
            )
        }
        other => panic!("replay: unknown op {other:?}"),
    }
}

fn replay(v: Value, ld: &Loaded) -> Report {
    println!("replaying {v} against {} ({})", ld.so_path, ld.src_path);
    let f = ld.syms;
    let n = v["n"].as_u64().unwrap_or(0) as usize;
    let d = v["d"].as_i64().unwrap_or(0).unsigned_abs() as usize;
    let out = std::env::temp_dir().join(format!("h-mem-replay-{}", std::process::id())).to_string_lossy().into_owned();
    let items = vec![isolated("replay", move || {
        let mut r = Report::new();
        let mut cx = Ctx::new(f, (2 * n + d + 64).max(watch_span(n)));
        run_case(&mut cx, &v, &mut r);
        watch_verdict(&cx, &mut r);
        r
    })];
    let r = run_isolated(items, &out, "C08");
    for v in r.violations.values() {
        println!("VIOLATED {}: {}", v.key, v.desc);
    }
    if r.violations.is_empty() {
        println!("case passed ({} calls)", r.evaluations);
    }
    r
}

fn main() {
    let args = parse_args();
    install_panic_hook();
    let ld = load();
    if let Some(p) = &args.replay {
        let r = replay(read_replay(p), &ld);
        println!("{}", serde_json::to_string_pretty(&r.to_json()).unwrap());
        std::process::exit(if r.violations.is_empty() { 0 } else { 1 });
    }
    let phase = args.phase.clone().unwrap_or_else(|| "c08".into());
    let r = match phase.as_str() {
        "c08" => c08(&args, &ld),
        _ => panic!("unknown phase"),
    };
    r.write(&args.out);
}
