//! C08 — the `memcpy`, `memmove`, `memset`, `memcmp`, `bcmp` symbols that tiny-start gives
//! to no-libc binaries behave as the C standard says for every length, alignment and
//! overlap, and never write outside the destination.
//!
//! Engine E4 (bounded-exhaustive enumeration) on the REAL code: the repository's
//! `tiny-start/src/symbols/mem.rs` is compiled verbatim into the private shared object
//! `libmemsyms.so` (crate `memsyms`), which is `dlopen`ed with `RTLD_LOCAL`; the five
//! functions are taken with `dlsym` on that handle.  The harness itself keeps libc's
//! `memcpy` & co., so a broken function under test cannot corrupt the checker.
//!
//! Oracle per call: destination == volatile byte-loop reference, everything around the
//! destination (>= 64 bytes on both sides, or an inaccessible page) untouched, source
//! untouched where it is not destination, returned pointer == dest; for memcmp the sign,
//! for bcmp the zero-ness, of a volatile byte-loop comparison.

use common::*;
use serde_json::{json, Value};
use std::ffi::{c_int, c_void, CStr, CString};
use std::ptr::{read_volatile, write_volatile};

type CopyFn = unsafe extern "C" fn(*mut u8, *const u8, usize) -> *mut u8;
type SetFn = unsafe extern "C" fn(*mut u8, c_int, usize) -> *mut u8;
type CmpFn = unsafe extern "C" fn(*const u8, *const u8, usize) -> c_int;

/// Values of mem.rs as read on 2026-10-02; `source_constants` re-derives the threshold
/// from the source that was actually compiled and widens the window if it grew.
const WORD: usize = 8;
const THRESHOLD: usize = 16;
const RED: usize = 64;
const REPO_SRC: &str = "/repo/tiny-start/src/symbols/mem.rs";
const LADDER: &[usize] = &[63, 64, 65, 127, 128, 129, 255, 256, 257, 4095, 4096, 4097, 65535, 65536, 65537, 1 << 20];
const FILLS_QUICK: &[u8] = &[0, 1, 0x7f, 0x80, 0xff];
/// (byte in first operand, byte in second operand) at the first differing position
const PAIRS: &[(u8, u8)] = &[(0, 1), (0, 255), (127, 128), (255, 0)];

// ---------------------------------------------------------------------------
// loading the code under test

#[derive(Clone, Copy)]
struct Syms {
    memcpy: CopyFn,
    memmove: CopyFn,
    memset: SetFn,
    memcmp: CmpFn,
    bcmp: CmpFn,
}

struct Loaded {
    syms: Syms,
    so_path: String,
    src_path: String,
    notes: Vec<String>,
}

fn so_candidates() -> Vec<String> {
    let mut v = Vec::new();
    if let Ok(p) = std::env::var("MEMSYMS_SO") {
        v.push(p);
    }
    if let Ok(exe) = std::env::current_exe() {
        if let Some(dir) = exe.parent() {
            // `cargo build -p h-mem` (memsyms is a dependency) refreshes deps/libmemsyms.so;
            // the copy next to the executable exists only after `cargo build -p memsyms`
            // and may be older, so it is the fallback.
            v.push(dir.join("deps/libmemsyms.so").to_string_lossy().into_owned());
            v.push(dir.join("libmemsyms.so").to_string_lossy().into_owned());
        }
    }
    v
}

fn object_of(addr: *const c_void) -> String {
    unsafe {
        let mut info: libc::Dl_info = std::mem::zeroed();
        if libc::dladdr(addr, &mut info) == 0 || info.dli_fname.is_null() {
            return "?".into();
        }
        CStr::from_ptr(info.dli_fname).to_string_lossy().into_owned()
    }
}

fn load() -> Loaded {
    let cands = so_candidates();
    let Some(path) = cands.iter().find(|p| std::path::Path::new(p).is_file()).cloned() else {
        eprintln!("h-mem: libmemsyms.so not found (looked at {cands:?}); run `cargo build --offline -p h-mem`");
        std::process::exit(2);
    };
    unsafe {
        let cpath = CString::new(path.clone()).unwrap();
        // RTLD_LOCAL: the object's `memcpy`... are NOT added to the global lookup scope.
        let h = libc::dlopen(cpath.as_ptr(), libc::RTLD_NOW | libc::RTLD_LOCAL);
        if h.is_null() {
            eprintln!("h-mem: dlopen({path}) failed: {}", CStr::from_ptr(libc::dlerror()).to_string_lossy());
            std::process::exit(2);
        }
        let mut notes = Vec::new();
        let mut get = |name: &str| -> *mut c_void {
            let c = CString::new(name).unwrap();
            let p = libc::dlsym(h, c.as_ptr());
            assert!(!p.is_null(), "symbol {name} missing from {path}");
            let obj = object_of(p);
            assert!(obj.contains("memsyms"), "{name} resolved to {obj}, not to the object under test");
            // what the harness process itself calls under that name must stay libc's
            let g = libc::dlsym(libc::RTLD_DEFAULT, c.as_ptr());
            if !g.is_null() {
                let gobj = object_of(g);
                assert!(g != p && !gobj.contains("memsyms"), "global {name} is the code under test ({gobj})");
                if name == "memcpy" {
                    notes.push(format!("process-global memcpy lives in {gobj}; memcpy under test in {obj}"));
                }
            }
            p
        };
        let syms = Syms {
            memcpy: std::mem::transmute::<*mut c_void, CopyFn>(get("memcpy")),
            memmove: std::mem::transmute::<*mut c_void, CopyFn>(get("memmove")),
            memset: std::mem::transmute::<*mut c_void, SetFn>(get("memset")),
            memcmp: std::mem::transmute::<*mut c_void, CmpFn>(get("memcmp")),
            bcmp: std::mem::transmute::<*mut c_void, CmpFn>(get("bcmp")),
        };
        let src = get_src(h);
        Loaded { syms, so_path: path, src_path: src, notes }
    }
}

unsafe fn get_src(h: *mut c_void) -> String {
    let p = libc::dlsym(h, c"VT_MEMSYMS_SRC".as_ptr());
    if p.is_null() {
        return "?".into();
    }
    CStr::from_ptr(p as *const libc::c_char).to_string_lossy().into_owned()
}

/// Largest byte count that `WORD_COPY_THRESHOLD` of the compiled source can evaluate to on
/// this target (None: the constant was not found, the window cannot be justified).
fn source_threshold(src_path: &str) -> Option<usize> {
    let text = std::fs::read_to_string(src_path).ok()?;
    let at = text.find("const WORD_COPY_THRESHOLD")?;
    let item = &text[at..];
    let item = &item[..item.find(';')?];
    let item = item.replace("WORD_SIZE", &WORD.to_string());
    // largest literal and largest product `a * b` occurring in the item
    let toks: Vec<&str> = item.split(|c: char| !(c.is_ascii_alphanumeric() || c == '*' || c == '_')).filter(|t| !t.is_empty()).collect();
    let mut best = 0usize;
    for (i, t) in toks.iter().enumerate() {
        if let Ok(v) = t.parse::<usize>() {
            best = best.max(v);
            if i >= 2 && toks[i - 1] == "*" {
                if let Ok(u) = toks[i - 2].parse::<usize>() {
                    best = best.max(u * v);
                }
            }
        }
    }
    (best > 0).then_some(best)
}

// ---------------------------------------------------------------------------
// operand placement

/// Where an operand lies in its arena.
#[derive(Clone, Copy, PartialEq, Debug)]
enum P {
    /// in the middle of accessible memory, `RED + m` bytes after a page start (misalignment m), canaries around it
    Mid(usize),
    /// last byte is the last accessible byte before a PROT_NONE page
    End,
    /// first byte is the first accessible byte after a PROT_NONE page
    Start,
}

impl P {
    fn name(self) -> &'static str {
        match self {
            P::Mid(_) => "mid",
            P::End => "end",
            P::Start => "start",
        }
    }
    fn mis(self) -> usize {
        match self {
            P::Mid(m) => m,
            _ => 0,
        }
    }
    fn parse(name: &str, m: usize) -> P {
        match name {
            "end" => P::End,
            "start" => P::Start,
            _ => P::Mid(m & 15),
        }
    }
}

/// A checked window of an arena: the operand (or span) is `[off, off+n)` of it.
#[derive(Clone, Copy)]
struct Region {
    base: *mut u8,
    len: usize,
    off: usize,
}

const SLACK: usize = RED + 16;

fn locate(arena: &GuardArena, p: P, n: usize) -> Region {
    let r = match p {
        P::Mid(m) => Region { base: arena.start_ptr(), off: RED + m, len: RED + m + n + RED },
        P::End => Region { base: unsafe { arena.end_ptr().sub(n + SLACK) }, off: SLACK, len: n + SLACK },
        P::Start => Region { base: arena.start_ptr(), off: 0, len: n + SLACK },
    };
    assert!(r.len <= arena.capacity());
    r
}

impl Region {
    #[allow(clippy::mut_from_ref)]
    fn bytes(&self) -> &'static mut [u8] {
        unsafe { std::slice::from_raw_parts_mut(self.base, self.len) }
    }
    fn ptr(&self) -> *mut u8 {
        unsafe { self.base.add(self.off) }
    }
}

struct Ctx {
    f: Syms,
    /// destination arena (memcmp: second operand)
    a: GuardArena,
    /// source arena (memcmp: first operand)
    s: GuardArena,
    /// source pattern by operand index: neighbours within 251 bytes are distinct, and so are bytes 251*k apart
    pat: Vec<u8>,
    /// complement of `pat`: prefill of a destination, so a byte that is not written is always seen
    npat: Vec<u8>,
    /// canary by region index
    cz: Vec<u8>,
    exp: Vec<u8>,
    exp2: Vec<u8>,
    tmp: Vec<u8>,
    case: String,
}

impl Ctx {
    fn new(f: Syms, max_span: usize) -> Ctx {
        let pages = (max_span + 2 * SLACK + 64) / 4096 + 2;
        let a = GuardArena::new(pages);
        let s = GuardArena::new(pages);
        let cap = a.capacity() + 64;
        let pat: Vec<u8> = (0..cap).map(|i| ((i % 251) + 7 * (i / 251)) as u8).collect();
        let npat: Vec<u8> = pat.iter().map(|b| !b).collect();
        let cz: Vec<u8> = (0..cap).map(|i| 0xA5u8 ^ ((i % 253) as u8).wrapping_mul(3)).collect();
        Ctx { f, a, s, pat, npat, cz, exp: vec![0; cap], exp2: vec![0; cap], tmp: vec![0; cap], case: String::with_capacity(256) }
    }
}

// ---------------------------------------------------------------------------
// references: volatile byte loops, never a library call

#[inline(never)]
fn ref_copy(dst: &mut [u8], src: &[u8]) {
    assert!(dst.len() == src.len());
    for i in 0..src.len() {
        unsafe { write_volatile(dst.as_mut_ptr().add(i), read_volatile(src.as_ptr().add(i))) }
    }
}
#[inline(never)]
fn ref_fill(dst: &mut [u8], b: u8) {
    for i in 0..dst.len() {
        unsafe { write_volatile(dst.as_mut_ptr().add(i), b) }
    }
}
/// -1 / 0 / 1: bytes compared as `unsigned char`, first difference decides
#[inline(never)]
fn ref_cmp(a: &[u8], b: &[u8]) -> i32 {
    for i in 0..a.len() {
        let (x, y) = unsafe { (read_volatile(a.as_ptr().add(i)), read_volatile(b.as_ptr().add(i))) };
        if x != y {
            return if x < y { -1 } else { 1 };
        }
    }
    0
}
fn first_diff(a: &[u8], b: &[u8]) -> Option<usize> {
    if a == b {
        return None;
    }
    a.iter().zip(b.iter()).position(|(x, y)| x != y)
}

fn path_class(n: usize, dst: usize, src: usize, backward: bool) -> &'static str {
    if n < THRESHOLD {
        return if backward { "backward:byte-loop" } else { "forward:byte-loop" };
    }
    // bytes consumed to align the destination, then the source's alignment decides the word helper
    let src_mis = if backward {
        let k = (dst + n) & (WORD - 1);
        (src + n - k) & (WORD - 1)
    } else {
        let k = dst.wrapping_neg() & (WORD - 1);
        (src + k) & (WORD - 1)
    };
    match (backward, src_mis == 0) {
        (false, true) => "forward:aligned-words",
        (false, false) => "forward:misaligned-words",
        (true, true) => "backward:aligned-words",
        (true, false) => "backward:misaligned-words",
    }
}

// ---------------------------------------------------------------------------
// one case of each operation

fn begin(cx: &Ctx, r: &mut Report) {
    r.eval();
    r.nontrivial_unique();
    set_case(&cx.case);
}

fn case_value(cx: &Ctx) -> Value {
    serde_json::from_str(&cx.case).unwrap_or(Value::String(cx.case.clone()))
}

fn do_memcpy(cx: &mut Ctx, n: usize, dp: P, sp: P, r: &mut Report) {
    use std::fmt::Write;
    let dr = locate(&cx.a, dp, n);
    let sr = locate(&cx.s, sp, n);
    let (d, s) = (dr.bytes(), sr.bytes());
    d.copy_from_slice(&cx.cz[..dr.len]);
    d[dr.off..dr.off + n].copy_from_slice(&cx.npat[..n]);
    s.copy_from_slice(&cx.cz[7..7 + sr.len]);
    s[sr.off..sr.off + n].copy_from_slice(&cx.pat[..n]);
    cx.exp[..dr.len].copy_from_slice(d);
    ref_copy(&mut cx.exp[dr.off..dr.off + n], &s[sr.off..sr.off + n]);
    cx.exp2[..sr.len].copy_from_slice(s);
    cx.case.clear();
    let _ = write!(
        cx.case,
        r#"{{"op":"memcpy","n":{n},"dp":"{}","dm":{},"sp":"{}","sm":{}}}"#,
        dp.name(),
        dp.mis(),
        sp.name(),
        sp.mis()
    );
    begin(cx, r);
    let ret = unsafe { (cx.f.memcpy)(dr.ptr(), sr.ptr(), n) };
    clear_case();
    r.outcome(path_class(n, dr.ptr() as usize, sr.ptr() as usize, false));
    let what = |cx: &Ctx| format!("memcpy(dest misaligned {}, src misaligned {}, n={n}) [{}]", dr.ptr() as usize & 15, sr.ptr() as usize & 15, cx.case);
    if ret != dr.ptr() {
        r.violation("C08:memcpy:wrong-return", format!("{}: returned dest{:+}", what(cx), ret as isize - dr.ptr() as isize), case_value(cx));
    }
    check_dest(cx, "memcpy", &what(cx), dr, n, None, r);
    if let Some(i) = first_diff(s, &cx.exp2[..sr.len]) {
        r.violation(
            "C08:memcpy:source-modified",
            format!("{}: byte {} relative to src changed from {:#04x} to {:#04x}", what(cx), i as isize - sr.off as isize, cx.exp2[i], s[i]),
            case_value(cx),
        );
    }
}

/// Compare the destination window with `cx.exp`; `src_range`: region indices of a source that
/// shares the window (memmove), to name a change there `source-modified`.
fn check_dest(cx: &Ctx, op: &str, what: &str, dr: Region, n: usize, src_range: Option<(usize, usize)>, r: &mut Report) {
    let d = dr.bytes();
    let e = &cx.exp[..dr.len];
    if let Some(i) = first_diff(&d[dr.off..dr.off + n], &e[dr.off..dr.off + n]) {
        r.violation(
            &format!("C08:{op}:wrong-bytes"),
            format!("{what}: dest[{i}] = {:#04x}, the C definition gives {:#04x}", d[dr.off + i], e[dr.off + i]),
            case_value(cx),
        );
    }
    let outside = first_diff(&d[..dr.off], &e[..dr.off]).or_else(|| first_diff(&d[dr.off + n..], &e[dr.off + n..]).map(|i| i + dr.off + n));
    if let Some(i) = outside {
        let rel = i as isize - dr.off as isize;
        let in_src = src_range.is_some_and(|(lo, hi)| i >= lo && i < hi);
        let kind = if in_src { "source-modified" } else { "redzone-written" };
        r.violation(
            &format!("C08:{op}:{kind}"),
            format!(
                "{what}: byte at dest{rel:+} (outside the destination [0,{n}){}) changed from {:#04x} to {:#04x}",
                if in_src { ", inside the source" } else { "" },
                e[i],
                d[i]
            ),
            case_value(cx),
        );
    }
}

/// `d` = dest - src.  `p`: placement of the union span of both operands; for `Mid(dm)` the
/// destination's misalignment is `dm`.
fn do_memmove(cx: &mut Ctx, n: usize, p: P, d: isize, r: &mut Report) {
    use std::fmt::Write;
    let span = n + d.unsigned_abs();
    let mut reg = match p {
        P::Mid(dm) => {
            let lo_mis = if d >= 0 { (dm as isize - d).rem_euclid(16) as usize } else { dm };
            locate(&cx.a, P::Mid(lo_mis), span)
        }
        other => locate(&cx.a, other, span),
    };
    let (src_off, dst_off) = if d >= 0 { (reg.off, reg.off + d as usize) } else { (reg.off + d.unsigned_abs(), reg.off) };
    let w = reg.bytes();
    w.copy_from_slice(&cx.pat[..reg.len]);
    cx.exp[..reg.len].copy_from_slice(w);
    {
        let (exp, tmp) = (&mut cx.exp, &mut cx.tmp);
        ref_copy(&mut tmp[..n], &exp[src_off..src_off + n]);
        ref_copy(&mut exp[dst_off..dst_off + n], &tmp[..n]);
    }
    cx.case.clear();
    let _ = write!(cx.case, r#"{{"op":"memmove","n":{n},"p":"{}","dm":{},"d":{d}}}"#, p.name(), p.mis());
    begin(cx, r);
    let (dptr, sptr) = unsafe { (reg.base.add(dst_off), reg.base.add(src_off)) };
    let ret = unsafe { (cx.f.memmove)(dptr, sptr, n) };
    clear_case();
    let backward = d >= 0 && (d as usize) < n;
    r.outcome(path_class(n, dptr as usize, sptr as usize, backward));
    r.outcome(if d == 0 {
        "overlap:same"
    } else if d.unsigned_abs() >= n {
        "overlap:disjoint"
    } else if d > 0 {
        "overlap:dest-above-src"
    } else {
        "overlap:dest-below-src"
    });
    let what = format!("memmove(dest misaligned {}, src = dest{:+}, n={n}) [{}]", dptr as usize & 15, -d, cx.case);
    if ret != dptr {
        r.violation("C08:memmove:wrong-return", format!("{what}: returned dest{:+}", ret as isize - dptr as isize), case_value(cx));
    }
    reg.off = dst_off;
    check_dest(cx, "memmove", &what, reg, n, Some((src_off, src_off + n)), r);
}

fn do_memset(cx: &mut Ctx, n: usize, p: P, c: c_int, r: &mut Report) {
    use std::fmt::Write;
    let dr = locate(&cx.a, p, n);
    let d = dr.bytes();
    let b = c as u8;
    d.copy_from_slice(&cx.cz[..dr.len]);
    d[dr.off..dr.off + n].fill(!b);
    cx.exp[..dr.len].copy_from_slice(d);
    ref_fill(&mut cx.exp[dr.off..dr.off + n], b);
    cx.case.clear();
    let _ = write!(cx.case, r#"{{"op":"memset","n":{n},"p":"{}","dm":{},"c":{c}}}"#, p.name(), p.mis());
    begin(cx, r);
    let ret = unsafe { (cx.f.memset)(dr.ptr(), c, n) };
    clear_case();
    r.outcome(if n < THRESHOLD { "memset:byte-loop" } else { "memset:words" });
    let what = format!("memset(s misaligned {}, c={c:#x}, n={n}) [{}]", dr.ptr() as usize & 15, cx.case);
    if ret != dr.ptr() {
        r.violation("C08:memset:wrong-return", format!("{what}: returned s{:+}", ret as isize - dr.ptr() as isize), case_value(cx));
    }
    check_dest(cx, "memset", &what, dr, n, None, r);
}

/// `pos`: index of the first differing byte, or -1 for equal operands; there the first
/// operand holds `x`, the second `y`.  `tail`: every later byte differs the other way round
/// (so only the FIRST difference gives the right sign).  Bytes just outside `[0,n)` differ
/// too (so looking past either end breaks the equal case).  Both argument orders are called.
#[allow(clippy::too_many_arguments)]
fn do_cmp(cx: &mut Ctx, op: &'static str, n: usize, pos: isize, x: u8, y: u8, tail: bool, pa: P, pb: P, r: &mut Report) {
    use std::fmt::Write;
    let ar = locate(&cx.s, pa, n);
    let br = locate(&cx.a, pb, n);
    let (a, b) = (ar.bytes(), br.bytes());
    a.copy_from_slice(&cx.cz[..ar.len]);
    b.copy_from_slice(&cx.npat[..br.len]);
    // make sure the bytes adjacent to the operands differ pairwise
    for k in 1..=8usize {
        if ar.off >= k && br.off >= k && a[ar.off - k] == b[br.off - k] {
            b[br.off - k] = !a[ar.off - k];
        }
        let (ia, ib) = (ar.off + n + k - 1, br.off + n + k - 1);
        if ia < ar.len && ib < br.len && a[ia] == b[ib] {
            b[ib] = !a[ia];
        }
    }
    a[ar.off..ar.off + n].copy_from_slice(&cx.pat[..n]);
    b[br.off..br.off + n].copy_from_slice(&cx.pat[..n]);
    if pos >= 0 {
        let q = pos as usize;
        a[ar.off + q] = x;
        b[br.off + q] = y;
        if tail {
            a[ar.off + q + 1..ar.off + n].fill(y);
            b[br.off + q + 1..br.off + n].fill(x);
        }
    }
    let want = ref_cmp(&a[ar.off..ar.off + n], &b[br.off..br.off + n]);
    cx.case.clear();
    let _ = write!(
        cx.case,
        r#"{{"op":"{op}","n":{n},"pos":{pos},"x":{x},"y":{y},"tail":{tail},"pa":"{}","am":{},"pb":"{}","bm":{}}}"#,
        pa.name(),
        pa.mis(),
        pb.name(),
        pb.mis()
    );
    let f = if op == "memcmp" { cx.f.memcmp } else { cx.f.bcmp };
    for swapped in [false, true] {
        begin(cx, r);
        let (got, want) = if swapped { (unsafe { f(br.ptr(), ar.ptr(), n) }, -want) } else { (unsafe { f(ar.ptr(), br.ptr(), n) }, want) };
        clear_case();
        r.outcome(match (op == "memcmp", want) {
            (true, -1) => "memcmp:less",
            (true, 0) => "memcmp:equal",
            (true, _) => "memcmp:greater",
            (false, 0) => "bcmp:equal",
            (false, _) => "bcmp:different",
        });
        let ok = if op == "memcmp" { got.signum() == want } else { (got == 0) == (want == 0) };
        if !ok {
            let (key, law) = if op == "memcmp" {
                ("C08:memcmp:wrong-sign", format!("sign {want}"))
            } else {
                ("C08:bcmp:wrong-zeroness", (if want == 0 { "zero" } else { "non-zero" }).to_string())
            };
            r.violation(
                key,
                format!(
                    "{op}({}, n={n}) = {got}, the C definition gives {law}; first difference at {pos} ({}), operands misaligned {}/{} [{}]",
                    if swapped { "second, first" } else { "first, second" },
                    if pos < 0 { "none".to_string() } else { format!("{x:#04x} vs {y:#04x}") },
                    ar.ptr() as usize & 15,
                    br.ptr() as usize & 15,
                    cx.case
                ),
                case_value(cx),
            );
        }
    }
}

// ---------------------------------------------------------------------------
// enumeration units: one (operation, n), split in the placements with canaries (`Mode::Canary`,
// cannot fault unless the code under test runs wild) and those with an operand against an
// inaccessible page (`Mode::Guard`, an out-of-range access is a fault that ends the shard).
// The two run in different shards so that a fault does not hide the canary findings.

const GUARDS: [P; 2] = [P::End, P::Start];

#[derive(Clone, Copy, PartialEq, Debug)]
enum Mode {
    Canary,
    Guard,
}

fn unit_memcpy(cx: &mut Ctx, n: usize, mode: Mode, mis: std::ops::Range<usize>, r: &mut Report) {
    if mode == Mode::Canary {
        for dm in mis {
            for sm in 0..16 {
                do_memcpy(cx, n, P::Mid(dm), P::Mid(sm), r);
            }
        }
        return;
    }
    for g in GUARDS {
        for m in mis.clone() {
            do_memcpy(cx, n, P::Mid(m), g, r);
            do_memcpy(cx, n, g, P::Mid(m), r);
        }
        if mis.start == 0 {
            for g2 in GUARDS {
                do_memcpy(cx, n, g, g2, r);
            }
        }
    }
}

fn unit_memmove(cx: &mut Ctx, n: usize, dists: &[isize], mode: Mode, mis: std::ops::Range<usize>, r: &mut Report) {
    for &d in dists {
        if mode == Mode::Canary {
            for dm in mis.clone() {
                do_memmove(cx, n, P::Mid(dm), d, r);
            }
        } else {
            for g in GUARDS {
                do_memmove(cx, n, g, d, r);
            }
        }
    }
}

fn all_dists(n: usize) -> Vec<isize> {
    // simplest first: 0, +1, -1, +2, ...
    let m = (n + 16) as isize;
    let mut v = vec![0];
    for k in 1..=m {
        v.push(k);
        v.push(-k);
    }
    v
}

fn ladder_dists(n: usize) -> Vec<isize> {
    let n = n as isize;
    let mut v: Vec<isize> = vec![0];
    for k in [1, 7, 8, 9, 16, n / 2, n - 9, n - 8, n - 1, n, n + 1, n + 16] {
        for s in [k, -k] {
            if !v.contains(&s) {
                v.push(s);
            }
        }
    }
    v
}

/// `wide`: also pass the fill byte with non-zero high bits and as a negative int
/// (the int argument is converted to unsigned char: high bits must be ignored)
fn unit_memset(cx: &mut Ctx, n: usize, fills: &[u8], wide: bool, mode: Mode, mis: std::ops::Range<usize>, r: &mut Report) {
    for &b in fills {
        let cs = [b as c_int, (b as u32 | 0x5a3c_9600) as c_int, b as c_int - 256];
        for &c in &cs[..if wide { 3 } else { 1 }] {
            if mode == Mode::Canary {
                for dm in mis.clone() {
                    do_memset(cx, n, P::Mid(dm), c, r);
                }
            } else {
                for g in GUARDS {
                    do_memset(cx, n, g, c, r);
                }
            }
        }
    }
}

fn unit_cmp(cx: &mut Ctx, n: usize, positions: &[isize], pairs: &[(u8, u8)], mis: &[usize], mode: Mode, r: &mut Report) {
    for op in ["memcmp", "bcmp"] {
        for &pos in positions {
            let pairs: &[(u8, u8)] = if pos < 0 { &[(0, 0)] } else { pairs };
            for &(x, y) in pairs {
                for tail in [false, true] {
                    if tail && (pos < 0 || pos as usize + 1 >= n) {
                        continue;
                    }
                    if mode == Mode::Canary {
                        for &am in mis {
                            for &bm in mis {
                                do_cmp(cx, op, n, pos, x, y, tail, P::Mid(am), P::Mid(bm), r);
                            }
                        }
                    } else {
                        for g in GUARDS {
                            for g2 in GUARDS {
                                do_cmp(cx, op, n, pos, x, y, tail, g, g2, r);
                            }
                        }
                    }
                }
            }
        }
    }
}

/// Cut `0..=nmax` into at most `k` contiguous ranges of about equal `cost`, smallest n first.
fn chunks(nmax: usize, k: usize, cost: impl Fn(usize) -> u64) -> Vec<(usize, usize)> {
    let total: u64 = (0..=nmax).map(&cost).sum();
    let mut out = Vec::new();
    let (mut lo, mut acc, mut done) = (0usize, 0u64, 0u64);
    for n in 0..=nmax {
        acc += cost(n);
        let left = (k - out.len()) as u64;
        if n == nmax || (left > 1 && acc * left >= total - done) {
            out.push((lo, n));
            lo = n + 1;
            done += acc;
            acc = 0;
        }
    }
    out
}

fn all_positions(n: usize) -> Vec<isize> {
    let mut v = vec![-1];
    v.extend(0..n as isize);
    v
}

fn ladder_positions(n: usize) -> Vec<isize> {
    let n = n as isize;
    let mut v = vec![-1];
    for p in [0, 1, 7, 8, n / 2, n - 9, n - 2, n - 1] {
        if p >= 0 && p < n && !v.contains(&p) {
            v.push(p);
        }
    }
    v
}

// ---------------------------------------------------------------------------

#[derive(Clone, Copy, PartialEq, Debug)]
enum Op {
    Memcpy,
    Memmove,
    Memset,
    Cmp,
}

struct Bounds {
    n_copy: usize,
    n_move: usize,
    n_set: usize,
    n_cmp: usize,
    fills: Vec<u8>,
}

fn c08(args: &Args, ld: &Loaded) -> Report {
    let mut pre = Report::new();
    let thr = source_threshold(&ld.src_path);
    let window = match thr {
        Some(t) => 2 * t + WORD,
        None => {
            pre.cap(format!("WORD_COPY_THRESHOLD not found in {}: the exhaustive window cannot be tied to the code's thresholds", ld.src_path));
            2 * THRESHOLD + WORD
        }
    };
    if thr.is_some_and(|t| t != THRESHOLD) {
        pre.note(format!("threshold of the compiled source is {:?} (harness was written for {THRESHOLD}); window widened accordingly", thr));
    }
    // the exhaustive window always covers 0..=2*threshold+word and (at least) as much again
    let floor = 2 * window;
    let b = if args.thorough {
        Bounds { n_copy: floor.max(4200), n_move: floor.max(1024), n_set: floor.max(1024), n_cmp: floor.max(256), fills: (0..=255).collect() }
    } else {
        Bounds { n_copy: floor, n_move: floor, n_set: floor, n_cmp: floor.min(64).max(window + 8), fills: FILLS_QUICK.to_vec() }
    };
    let f = ld.syms;
    let all_mis: Vec<usize> = (0..16).collect();

    // exhaustive part: per operation, contiguous ranges of n of about equal cost, smallest n first
    // (so the case kept under a violation key is the one with the smallest n)
    let k = if args.thorough { 48 } else { 12 };
    let nfill = b.fills.len() as u64;
    let mut items = Vec::new();
    for mode in [Mode::Canary, Mode::Guard] {
        let k = if mode == Mode::Canary { k } else { k / 4 };
        for (lo, hi) in chunks(b.n_copy, k, |n| 256 * (n as u64 + 300)) {
            items.push(isolated(format!("memcpy-{mode:?}-{lo}..={hi}"), move || {
                let mut r = Report::new();
                let mut cx = Ctx::new(f, hi + 64);
                for n in lo..=hi {
                    unit_memcpy(&mut cx, n, mode, 0..16, &mut r);
                }
                if lo == 0 {
                    r.sample(json!({"op":"memcpy","n":17,"dp":"mid","dm":3,"sp":"mid","sm":5}));
                    r.sample(json!({"op":"memcpy","n":33,"dp":"mid","dm":9,"sp":"end","sm":0}));
                }
                r
            }));
        }
        for (lo, hi) in chunks(b.n_move, k, |n| (2 * n as u64 + 33) * 16 * (3 * n as u64 + 400)) {
            items.push(isolated(format!("memmove-{mode:?}-{lo}..={hi}"), move || {
                let mut r = Report::new();
                let mut cx = Ctx::new(f, 2 * hi + 64);
                for n in lo..=hi {
                    unit_memmove(&mut cx, n, &all_dists(n), mode, 0..16, &mut r);
                }
                if lo == 0 {
                    r.sample(json!({"op":"memmove","n":24,"p":"mid","dm":1,"d":5}));
                    r.sample(json!({"op":"memmove","n":40,"p":"end","dm":0,"d":-3}));
                }
                r
            }));
        }
        for (lo, hi) in chunks(b.n_set, k, |n| nfill * 48 * (n as u64 + 300)) {
            let fills = b.fills.clone();
            items.push(isolated(format!("memset-{mode:?}-{lo}..={hi}"), move || {
                let mut r = Report::new();
                let mut cx = Ctx::new(f, hi + 64);
                for n in lo..=hi {
                    unit_memset(&mut cx, n, &fills, true, mode, 0..16, &mut r);
                }
                if lo == 0 {
                    r.sample(json!({"op":"memset","n":33,"p":"mid","dm":7,"c":128}));
                }
                r
            }));
        }
        for (lo, hi) in chunks(b.n_cmp, k, |n| (n as u64 + 1) * (n as u64 + 300)) {
            let all_mis = all_mis.clone();
            items.push(isolated(format!("memcmp+bcmp-{mode:?}-{lo}..={hi}"), move || {
                let mut r = Report::new();
                let mut cx = Ctx::new(f, hi + 64);
                for n in lo..=hi {
                    unit_cmp(&mut cx, n, &all_positions(n), PAIRS, &all_mis, mode, &mut r);
                }
                if lo == 0 {
                    r.sample(json!({"op":"memcmp","n":9,"pos":4,"x":127,"y":128,"tail":true,"pa":"mid","am":2,"pb":"mid","bm":11}));
                    r.sample(json!({"op":"bcmp","n":16,"pos":-1,"x":0,"y":0,"tail":false,"pa":"end","am":0,"pb":"end","bm":0}));
                }
                r
            }));
        }
    }

    // ladder part (a fixed sample of large sizes, NOT exhaustive in n): shards per (op, n[, quarter of the misalignments])
    let lad_mis: Vec<usize> = vec![0, 1, 7, 8, 15];
    for &n in LADDER {
        let quarters: &[(usize, usize)] = if n >= 65535 { &[(0, 4), (4, 8), (8, 12), (12, 16)] } else { &[(0, 16)] };
        for (op, lim) in [(Op::Memcpy, b.n_copy), (Op::Memmove, b.n_move), (Op::Memset, b.n_set), (Op::Cmp, b.n_cmp)] {
            if n <= lim {
                continue; // already inside this operation's exhaustive window
            }
            for mode in [Mode::Canary, Mode::Guard] {
                for &(lo, hi) in quarters {
                    if lo != 0 && (op == Op::Cmp || (mode == Mode::Guard && op != Op::Memcpy)) {
                        continue;
                    }
                    let lad_mis = lad_mis.clone();
                    items.push(isolated(format!("ladder-{op:?}-{mode:?}-{n}-{lo}"), move || {
                        let mut r = Report::new();
                        let mut cx = Ctx::new(f, 2 * n + 64);
                        match op {
                            Op::Memcpy => unit_memcpy(&mut cx, n, mode, lo..hi, &mut r),
                            Op::Memmove => unit_memmove(&mut cx, n, &ladder_dists(n), mode, lo..hi, &mut r),
                            Op::Memset => unit_memset(&mut cx, n, FILLS_QUICK, false, mode, lo..hi, &mut r),
                            Op::Cmp => unit_cmp(&mut cx, n, &ladder_positions(n), &[(0, 1), (255, 0)], &lad_mis, mode, &mut r),
                        }
                        r
                    }));
                }
            }
        }
    }

    if std::env::var_os("H_MEM_TIMING").is_some() {
        items = items
            .into_iter()
            .map(|it| {
                let name = it.name.clone();
                let work = it.work;
                isolated(it.name, move || {
                    let t = now();
                    let r = work();
                    eprintln!("{:8.3}s {:>10} calls  {name}", t.elapsed().as_secs_f64(), r.evaluations);
                    r
                })
            })
            .collect();
    }
    let mut r = run_isolated(items, &args.out, "C08");
    r.merge(pre);
    for n in &ld.notes {
        r.note(n.clone());
    }
    r.note(format!("code under test: {} compiled from {}", ld.so_path, ld.src_path));
    if ld.src_path != REPO_SRC {
        // only happens when memsyms was built with MEMSYMS_SRC set (defect-injection demonstrations)
        r.cap(format!("the object under test was compiled from {} instead of {REPO_SRC}: this run says nothing about the repository", ld.src_path));
    }
    r.rule = format!(
        "EXHAUSTIVE part: memcpy every n in 0..={} x every destination misalignment 0..=15 x every source misalignment 0..=15 (operands in separate buffers with canaries), \
         plus each operand against a guard page (ending at / starting after a PROT_NONE page) with the other at every misalignment; \
         memmove every n in 0..={} x every destination misalignment x every distance dest-src in -(n+16)..=n+16 inside one buffer, plus the union span against a guard page at either side; \
         memset every n in 0..={} x every misalignment (+ both guard placements) x fill bytes {} each passed as b, b|0x5a3c9600 and b-256; \
         memcmp and bcmp every n in 0..={} x every position of the first differing byte (and none) x byte pairs {{0/1,0/255,127/128,255/0}} x {{identical tail, tail differing the other way}} \
         x every misalignment pair 0..=15 x 0..=15 (+ four guard placements), both argument orders. The compiled source has WORD_COPY_THRESHOLD={:?}, word={WORD}: 2*threshold+word={window}. \
         LADDER part (a fixed sample, not exhaustive in n): n in {:?} (those beyond the exhaustive window) with memcpy at all 16x16 misalignments + guard placements, \
         memmove at all 16 destination misalignments x distances {{0,+-1,+-7,+-8,+-9,+-16,+-n/2,+-(n-9),+-(n-8),+-(n-1),+-n,+-(n+1),+-(n+16)}}, memset at all 16 misalignments x fills {{0,1,0x7f,0x80,0xff}}, \
         memcmp/bcmp at misalignments {{0,1,7,8,15}}^2, positions {{none,0,1,7,8,n/2,n-9,n-2,n-1}}, pairs {{0/1,255/0}}. \
         Every call of a function under test is one evaluation; each (operation, parameters, placement, argument order) is generated exactly once, all are non-trivial \
         (n=0 checks that nothing is touched).",
        b.n_copy,
        b.n_move,
        b.n_set,
        if b.fills.len() == 256 { "0..=255".to_string() } else { format!("{:02x?}", b.fills) },
        b.n_cmp,
        thr,
        LADDER
    );
    r.bound("n_max_memcpy", b.n_copy);
    r.bound("n_max_memmove", b.n_move);
    r.bound("n_max_memset", b.n_set);
    r.bound("n_max_memcmp_bcmp", b.n_cmp);
    r.bound("threshold_window", window);
    r.bound("fill_bytes", b.fills.len());
    r.bound("ladder", json!(LADDER));
    r.bound("red_zone_bytes", RED);
    r
}

// ---------------------------------------------------------------------------

fn run_case(cx: &mut Ctx, v: &Value, r: &mut Report) {
    let u = |k: &str| v[k].as_u64().unwrap_or(0) as usize;
    let i = |k: &str| v[k].as_i64().unwrap_or(0);
    let s = |k: &str| v[k].as_str().unwrap_or("mid").to_string();
    let n = u("n");
    match v["op"].as_str().unwrap_or("") {
        "memcpy" => do_memcpy(cx, n, P::parse(&s("dp"), u("dm")), P::parse(&s("sp"), u("sm")), r),
        "memmove" => do_memmove(cx, n, P::parse(&s("p"), u("dm")), i("d") as isize, r),
        "memset" => do_memset(cx, n, P::parse(&s("p"), u("dm")), i("c") as c_int, r),
        op @ ("memcmp" | "bcmp") => {
            let op = if op == "memcmp" { "memcmp" } else { "bcmp" };
            do_cmp(
                cx,
                op,
                n,
                i("pos") as isize,
                u("x") as u8,
                u("y") as u8,
                v["tail"].as_bool().unwrap_or(false),
                P::parse(&s("pa"), u("am")),
                P::parse(&s("pb"), u("bm")),
                r,
            )
        }
        other => panic!("replay: unknown op {other:?}"),
    }
}

fn replay(v: Value, ld: &Loaded) -> Report {
    println!("replaying {v} against {} ({})", ld.so_path, ld.src_path);
    let f = ld.syms;
    let n = v["n"].as_u64().unwrap_or(0) as usize;
    let d = v["d"].as_i64().unwrap_or(0).unsigned_abs() as usize;
    let out = std::env::temp_dir().join(format!("h-mem-replay-{}", std::process::id())).to_string_lossy().into_owned();
    let items = vec![isolated("replay", move || {
        let mut r = Report::new();
        let mut cx = Ctx::new(f, 2 * n + d + 64);
        run_case(&mut cx, &v, &mut r);
        r
    })];
    let r = run_isolated(items, &out, "C08");
    for v in r.violations.values() {
        println!("VIOLATED {}: {}", v.key, v.desc);
    }
    if r.violations.is_empty() {
        println!("case passed ({} calls)", r.evaluations);
    }
    r
}

fn main() {
    let args = parse_args();
    install_panic_hook();
    let ld = load();
    if let Some(p) = &args.replay {
        let r = replay(read_replay(p), &ld);
        println!("{}", serde_json::to_string_pretty(&r.to_json()).unwrap());
        std::process::exit(if r.violations.is_empty() { 0 } else { 1 });
    }
    let phase = args.phase.clone().unwrap_or_else(|| "c08".into());
    let r = match phase.as_str() {
        "c08" => c08(&args, &ld),
        _ => panic!("unknown phase"),
    };
    r.write(&args.out);
}
