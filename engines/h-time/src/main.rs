//! C19 — time arithmetic, monotonic clock, sleep.
//!
//! Phase `arith` (engine E4, bounded-exhaustive): the full Cartesian boundary grid of
//! normalised time values × Durations, closed once under the exact `t ± d`, through every
//! public arithmetic / comparison operation of `tiny_std::time::{Instant, SystemTime,
//! MonotonicInstant}`; reference = exact `i128` nanosecond arithmetic.  Nothing in this
//! file depends on the build profile: the driver runs the same source with overflow checks
//! on (an overflow inside the code under test is then a caught panic) and off (a wrapped
//! value is then a wrong answer).
//!
//! Phase `clock` (SAMPLED, real time cannot be enumerated): consecutive readings of the
//! monotonic clock never decrease; `sleep(d)` returns no earlier than `d` by the libc
//! CLOCK_MONOTONIC stopwatch.
//!
//! How values are built (time.rs has no public constructor for two of the three types):
//!   * `SystemTime`        — `SystemTime::from(TimeSpec)` (public, safe); read back by
//!                           `transmute::<SystemTime, TimeSpec>` (single private field).
//!   * `Instant`           — `transmute::<TimeSpec, Instant>` (struct with the single field
//!                           `TimeSpec`, itself `repr(transparent)` over `__kernel_timespec`);
//!                           read back through the public `AsRef<TimeSpec>`.
//!   * `MonotonicInstant`  — `transmute::<TimeSpec, MonotonicInstant>`; read back through
//!                           `as_instant().as_ref()`.
//! `selfcheck()` verifies all three routes against the `Debug` rendering before any case runs.

use common::*;
use core::cmp::Ordering;
use core::time::Duration;
use rusl::platform::TimeSpec;
use serde_json::{json, Value};
use std::collections::BTreeSet;
use tiny_std::time::{Instant, MonotonicInstant, SystemTime};

const G: i128 = 1_000_000_000;

// ---------------------------------------------------------------------------
// plain operand values

/// a time value: seconds, nanoseconds (normalised: 0 <= n < 10^9)
#[derive(Clone, Copy, PartialEq, Eq, PartialOrd, Ord, Hash, Debug)]
struct Tv {
    s: i64,
    n: i64,
}
/// a Duration
#[derive(Clone, Copy, PartialEq, Eq, PartialOrd, Ord, Hash, Debug)]
struct Dv {
    s: u64,
    n: u32,
}

fn tns(v: Tv) -> i128 {
    v.s as i128 * G + v.n as i128
}
fn dns(d: Dv) -> i128 {
    d.s as i128 * G + d.n as i128
}
fn dur(d: Dv) -> Duration {
    Duration::new(d.s, d.n) // n < 10^9: no carry, cannot panic
}
fn dv(d: Duration) -> Dv {
    Dv { s: d.as_secs(), n: d.subsec_nanos() }
}
fn show_t(v: Tv) -> String {
    format!("({}s,{}ns)", v.s, v.n)
}
fn show_d(d: Dv) -> String {
    format!("Duration({}s,{}ns)", d.s, d.n)
}
fn jt(v: Tv) -> Value {
    json!([v.s.to_string(), v.n.to_string()])
}
fn jd(d: Dv) -> Value {
    json!([d.s.to_string(), d.n.to_string()])
}

// ---------------------------------------------------------------------------
// the three types behind one interface

trait Mk: Copy + Ord + core::fmt::Debug + 'static {
    const NAME: &'static str;
    const TY: usize;
    fn mk(v: Tv) -> Self;
    fn raw(self) -> Tv;
}

trait TimeLike: Mk {
    fn add_d(self, d: Duration) -> Option<Self>;
    fn sub_d(self, d: Duration) -> Option<Self>;
    fn sub_t(self, o: Self) -> Option<Duration>;
    fn dur_since(self, o: Self) -> Option<Duration>;
    fn since_unix(self) -> Duration {
        unreachable!()
    }
}

fn ts_tv(t: &TimeSpec) -> Tv {
    Tv { s: t.seconds(), n: t.nanoseconds() }
}

impl Mk for Instant {
    const NAME: &'static str = "Instant";
    const TY: usize = 0;
    fn mk(v: Tv) -> Self {
        // no public constructor; layout checked by transmute (size) and selfcheck() (content)
        unsafe { core::mem::transmute::<TimeSpec, Instant>(TimeSpec::new(v.s, v.n)) }
    }
    fn raw(self) -> Tv {
        ts_tv(self.as_ref())
    }
}
impl TimeLike for Instant {
    fn add_d(self, d: Duration) -> Option<Self> {
        self + d
    }
    fn sub_d(self, d: Duration) -> Option<Self> {
        self - d
    }
    fn sub_t(self, o: Self) -> Option<Duration> {
        self - o
    }
    fn dur_since(self, o: Self) -> Option<Duration> {
        self.duration_since(o)
    }
}

impl Mk for SystemTime {
    const NAME: &'static str = "SystemTime";
    const TY: usize = 1;
    fn mk(v: Tv) -> Self {
        SystemTime::from(TimeSpec::new(v.s, v.n))
    }
    fn raw(self) -> Tv {
        ts_tv(&unsafe { core::mem::transmute::<SystemTime, TimeSpec>(self) })
    }
}
impl TimeLike for SystemTime {
    fn add_d(self, d: Duration) -> Option<Self> {
        self + d
    }
    fn sub_d(self, d: Duration) -> Option<Self> {
        self - d
    }
    fn sub_t(self, o: Self) -> Option<Duration> {
        self - o
    }
    fn dur_since(self, o: Self) -> Option<Duration> {
        self.duration_since(o)
    }
    fn since_unix(self) -> Duration {
        self.duration_since_unix_time()
    }
}

impl Mk for MonotonicInstant {
    const NAME: &'static str = "MonotonicInstant";
    const TY: usize = 2;
    fn mk(v: Tv) -> Self {
        unsafe { core::mem::transmute::<TimeSpec, MonotonicInstant>(TimeSpec::new(v.s, v.n)) }
    }
    fn raw(self) -> Tv {
        ts_tv(self.as_instant().as_ref())
    }
}

const TYPE_NAMES: [&str; 3] = ["Instant", "SystemTime", "MonotonicInstant"];

/// The construction / read-back routes give exactly the requested representation.
/// A failure here is a machinery failure (the harness no longer fits the sources), not a verdict.
fn selfcheck() {
    fn one<T: Mk>(v: Tv) {
        let x = T::mk(v);
        assert_eq!(x.raw(), v, "{}: construct/read-back round trip", T::NAME);
        let dbg = format!("{x:?}");
        assert!(
            dbg.starts_with(T::NAME) && dbg.contains(&format!("tv_sec: {},", v.s)) && dbg.contains(&format!("tv_nsec: {} ", v.n)),
            "{}: Debug rendering {dbg} does not show {v:?}",
            T::NAME
        );
    }
    for s in [0i64, 1, 5, -1, i64::MAX, i64::MIN, 0x0123_4567_89ab_cdef] {
        for n in [0i64, 7, 999_999_999] {
            let v = Tv { s, n };
            one::<Instant>(v);
            one::<SystemTime>(v);
            one::<MonotonicInstant>(v);
        }
    }
    assert_eq!(MonotonicInstant::ZERO.as_instant(), Instant::mk(Tv { s: 0, n: 0 }));
    assert_eq!(core::mem::size_of::<TimeSpec>(), 16);
}

// ---------------------------------------------------------------------------
// report context with cheap outcome counters

const ADD: usize = 0;
const SUBD: usize = 1;
const SUB: usize = 2;
const DSINCE: usize = 3;
const UNIX: usize = 4;
const ORD: usize = 5;
const ID_ADD_SUB: usize = 6;
const ID_ADD_DIFF: usize = 7;
const ID_SUB_ADD: usize = 8;
const AS_INSTANT: usize = 9;
const CONST: usize = 10;
const OPS: [&str; 11] = [
    "add",
    "sub-duration",
    "sub",
    "duration_since",
    "duration_since_unix_time",
    "ord",
    "identity-add-sub",
    "identity-add-diff",
    "identity-sub-add",
    "as_instant",
    "constant",
];
/// how the operation reads in a description
const OP_TEXT: [&str; 11] = ["t + d", "t - d", "a - b", "a.duration_since(b)", "t.duration_since_unix_time()", "a <=> b", "(t+d)-d", "(t+d)-t", "(t-d)+d", "m.as_instant()", "constant"];

const SOME: usize = 0;
const NONE_NEG: usize = 1;
const NONE_OVF: usize = 2;
const VIOL: usize = 3;
const LESS: usize = 4;
const EQUAL: usize = 5;
const GREATER: usize = 6;
const HOLDS: usize = 7;
const VACUOUS: usize = 8;
const NEG_SOME_EXACT: usize = 9;
const NEG_SOME_INEXACT: usize = 10;
const NEG_NONE_REPR: usize = 11;
const NEG_NONE: usize = 12;
const NEG_ORD_EXACT: usize = 13;
const NEG_ORD_INEXACT: usize = 14;
const EXACT: usize = 15;
const NEG_RETURNED: usize = 16;
const CLASSES: [&str; 17] = [
    "some",
    "none-negative",
    "none-overflow",
    "VIOLATION",
    "less",
    "equal",
    "greater",
    "holds",
    "vacuous(intermediate-none)",
    "negdomain-no-panic:some-exact",
    "negdomain-no-panic:some-inexact",
    "negdomain-no-panic:none-though-representable",
    "negdomain-no-panic:none",
    "negdomain-no-panic:ord-exact",
    "negdomain-no-panic:ord-inexact",
    "exact",
    "negdomain-no-panic:returned",
];

struct Cx {
    r: Report,
    oc: [[[u64; CLASSES.len()]; OPS.len()]; 3],
}

impl Cx {
    fn new() -> Self {
        Cx { r: Report::new(), oc: [[[0; CLASSES.len()]; OPS.len()]; 3] }
    }
    #[inline]
    fn case(&mut self) {
        self.r.eval();
        self.r.nontrivial_unique();
    }
    #[inline]
    fn out(&mut self, ty: usize, op: usize, class: usize) {
        self.oc[ty][op][class] += 1;
    }
    fn merge(&mut self, o: Cx) {
        self.r.merge(o.r);
        for t in 0..3 {
            for op in 0..OPS.len() {
                for c in 0..CLASSES.len() {
                    self.oc[t][op][c] += o.oc[t][op][c];
                }
            }
        }
    }
    fn finish(mut self) -> Report {
        for t in 0..3 {
            for op in 0..OPS.len() {
                for c in 0..CLASSES.len() {
                    if self.oc[t][op][c] > 0 {
                        self.r.outcome_n(&format!("{}::{}:{}", TYPE_NAMES[t], OPS[op], CLASSES[c]), self.oc[t][op][c]);
                    }
                }
            }
        }
        self.r
    }
    /// `C19:<Type>::<op>:<kind>` for operation failures, `C19:<Type>:<kind>` for identities / ordering
    fn viol(&mut self, ty: usize, op: usize, key: String, desc: String, mut replay: Value) {
        self.out(ty, op, VIOL);
        replay["key"] = json!(key);
        self.r.violation(&key, desc, replay);
    }
}

fn key_op(ty: usize, op: usize, kind: &str) -> String {
    format!("C19:{}::{}:{kind}", TYPE_NAMES[ty], OPS[op])
}
fn key_ty(ty: usize, kind: &str) -> String {
    format!("C19:{}:{kind}", TYPE_NAMES[ty])
}

/// In fast mode the caller has wrapped the whole row in one `common::catch`; in slow mode
/// (entered only after a row panicked, and for replays) every single call is caught so
/// that the panic is attributed to the operation and operands.
#[inline(always)]
fn call<R>(slow: bool, f: impl FnOnce() -> R) -> Result<R, String> {
    if slow {
        catch(f)
    } else {
        Ok(f())
    }
}

/// Run `body` for one row of the grid under `common::catch`; on a panic discard the row's
/// partial results and re-run it with one `catch` per call of the code under test.
fn guarded_row(cx: &mut Cx, body: impl Fn(&mut Cx, bool)) {
    let mut row = Cx::new();
    if catch(|| body(&mut row, false)).is_ok() {
        cx.merge(row);
        return;
    }
    let mut row = Cx::new();
    body(&mut row, true);
    cx.merge(row);
}

// ---------------------------------------------------------------------------
// reference: exact integer arithmetic on nanoseconds

#[derive(Clone, Copy, PartialEq, Debug)]
enum Want<V> {
    Some(V),
    Negative,
    Overflow,
}

/// a time value at or after the epoch/boot whose seconds fit `i64`
fn want_time(total: i128) -> Want<Tv> {
    if total < 0 {
        return Want::Negative;
    }
    let s = total / G;
    if s > i64::MAX as i128 {
        return Want::Overflow;
    }
    Want::Some(Tv { s: s as i64, n: (total % G) as i64 })
}
fn want_dur(total: i128) -> Want<Dv> {
    if total < 0 {
        return Want::Negative;
    }
    let s = total / G;
    if s > u64::MAX as i128 {
        return Want::Overflow;
    }
    Want::Some(Dv { s: s as u64, n: (total % G) as u32 })
}
/// informational reference on the negative-seconds domain of SystemTime: any sign, seconds fit i64
fn signed_time(total: i128) -> Option<Tv> {
    let s = total.div_euclid(G);
    i64::try_from(s).ok().map(|s| Tv { s, n: total.rem_euclid(G) as i64 })
}

fn show_want<V: Copy>(w: Want<V>, f: impl Fn(V) -> String) -> String {
    match w {
        Want::Some(v) => {
            let s = f(v);
            if s.starts_with('(') {
                format!("Some{s}")
            } else {
                format!("Some({s})")
            }
        }
        Want::Negative => "None (exact result is negative)".into(),
        Want::Overflow => "None (exact result exceeds the representable seconds)".into(),
    }
}

fn replay_td(ty: usize, op: usize, t: Tv, d: Dv) -> Value {
    json!({"group": "td", "type": TYPE_NAMES[ty], "op": OPS[op], "t": jt(t), "d": jd(d)})
}
fn replay_tt(ty: usize, op: usize, a: Tv, b: Tv) -> Value {
    json!({"group": "tt", "type": TYPE_NAMES[ty], "op": OPS[op], "a": jt(a), "b": jt(b)})
}

/// Oracle for an `Option<time>` result on the at-or-after-epoch domain.
fn judge_time<T: TimeLike>(cx: &mut Cx, op: usize, t: Tv, d: Dv, got: &Result<Option<T>, String>, want: Want<Tv>) {
    let ty = T::TY;
    let text = || format!("{}{} {} {}", T::NAME, show_t(t), if op == ADD { "+" } else { "-" }, show_d(d));
    match got {
        Err(p) => cx.viol(ty, op, key_op(ty, op, "panic"), format!("{} panicked: {p}; exact result {}", text(), show_want(want, show_t)), replay_td(ty, op, t, d)),
        Ok(Some(x)) => {
            let g = x.raw();
            if !(0..G as i64).contains(&g.n) {
                cx.viol(ty, op, key_op(ty, op, "not-normalised"), format!("{} = Some{}: nanoseconds outside 0..10^9; exact result {}", text(), show_t(g), show_want(want, show_t)), replay_td(ty, op, t, d));
                return;
            }
            match want {
                Want::Some(w) if w == g => cx.out(ty, op, SOME),
                Want::Some(_) => cx.viol(ty, op, key_op(ty, op, "wrong-result"), format!("{} = Some{}; exact result {}", text(), show_t(g), show_want(want, show_t)), replay_td(ty, op, t, d)),
                _ => cx.viol(ty, op, key_op(ty, op, "some-for-unrepresentable"), format!("{} = Some{}; exact result {}", text(), show_t(g), show_want(want, show_t)), replay_td(ty, op, t, d)),
            }
        }
        Ok(None) => match want {
            Want::Negative => cx.out(ty, op, NONE_NEG),
            Want::Overflow => cx.out(ty, op, NONE_OVF),
            Want::Some(_) => cx.viol(ty, op, key_op(ty, op, "none-for-representable"), format!("{} = None; exact result {}", text(), show_want(want, show_t)), replay_td(ty, op, t, d)),
        },
    }
}

/// Oracle for an `Option<Duration>` difference on the at-or-after-epoch domain.
fn judge_dur<T: TimeLike>(cx: &mut Cx, op: usize, a: Tv, b: Tv, got: &Result<Option<Duration>, String>, want: Want<Dv>) {
    let ty = T::TY;
    let text = || {
        if op == SUB {
            format!("{}{} - {}{}", T::NAME, show_t(a), T::NAME, show_t(b))
        } else {
            format!("{}{}.duration_since({})", T::NAME, show_t(a), show_t(b))
        }
    };
    match got {
        Err(p) => cx.viol(ty, op, key_op(ty, op, "panic"), format!("{} panicked: {p}; exact result {}", text(), show_want(want, show_d)), replay_tt(ty, op, a, b)),
        Ok(Some(x)) => {
            let g = dv(*x);
            match want {
                Want::Some(w) if w == g => cx.out(ty, op, SOME),
                Want::Some(_) => cx.viol(ty, op, key_op(ty, op, "wrong-result"), format!("{} = Some({}); exact result {}", text(), show_d(g), show_want(want, show_d)), replay_tt(ty, op, a, b)),
                _ => cx.viol(ty, op, key_op(ty, op, "some-for-unrepresentable"), format!("{} = Some({}); exact result {}", text(), show_d(g), show_want(want, show_d)), replay_tt(ty, op, a, b)),
            }
        }
        Ok(None) => match want {
            Want::Negative => cx.out(ty, op, NONE_NEG),
            Want::Overflow => cx.out(ty, op, NONE_OVF),
            Want::Some(_) => cx.viol(ty, op, key_op(ty, op, "none-for-representable"), format!("{} = None; exact result {}", text(), show_want(want, show_d)), replay_tt(ty, op, a, b)),
        },
    }
}

// ---------------------------------------------------------------------------
// group "td": one time value and one Duration

fn run_td<T: TimeLike>(cx: &mut Cx, t: Tv, d: Dv, slow: bool) {
    if t.s < 0 {
        return run_td_neg::<T>(cx, t, d, slow);
    }
    let ty = T::TY;
    let tt = T::mk(t);
    let dd = dur(d);
    let add = call(slow, || tt.add_d(dd));
    cx.case();
    judge_time::<T>(cx, ADD, t, d, &add, want_time(tns(t) + dns(d)));
    let sub = call(slow, || tt.sub_d(dd));
    cx.case();
    judge_time::<T>(cx, SUBD, t, d, &sub, want_time(tns(t) - dns(d)));

    // identities of the statement, checked on the implementation's own intermediate results
    // (t+d)-d = t
    cx.r.eval();
    if let Ok(Some(x)) = add {
        match call(slow, || x.sub_d(dd)) {
            Err(p) => cx.viol(ty, SUBD, key_op(ty, SUBD, "panic"), format!("{}{} - {} panicked: {p} (second step of (t+d)-d, t={})", T::NAME, show_t(x.raw()), show_d(d), show_t(t)), replay_td(ty, SUBD, x.raw(), d)),
            Ok(None) => cx.out(ty, ID_ADD_SUB, VACUOUS),
            Ok(Some(y)) => {
                cx.r.nontrivial_unique();
                if y.raw() == t {
                    cx.out(ty, ID_ADD_SUB, HOLDS)
                } else {
                    cx.viol(ty, ID_ADD_SUB, key_ty(ty, "identity-add-sub"), format!("{} t={} d={}: t+d = {}, (t+d)-d = {} != t", T::NAME, show_t(t), show_d(d), show_t(x.raw()), show_t(y.raw())), replay_td(ty, ID_ADD_SUB, t, d));
                }
            }
        }
        // (t+d)-t = d
        cx.r.eval();
        match call(slow, || x.sub_t(tt)) {
            Err(p) => cx.viol(ty, SUB, key_op(ty, SUB, "panic"), format!("{}{} - {}{} panicked: {p} (second step of (t+d)-t)", T::NAME, show_t(x.raw()), T::NAME, show_t(t)), replay_tt(ty, SUB, x.raw(), t)),
            Ok(None) => cx.out(ty, ID_ADD_DIFF, VACUOUS),
            Ok(Some(z)) => {
                cx.r.nontrivial_unique();
                if dv(z) == d {
                    cx.out(ty, ID_ADD_DIFF, HOLDS)
                } else {
                    cx.viol(ty, ID_ADD_DIFF, key_ty(ty, "identity-add-diff"), format!("{} t={} d={}: t+d = {}, (t+d)-t = {} != d", T::NAME, show_t(t), show_d(d), show_t(x.raw()), show_d(dv(z))), replay_td(ty, ID_ADD_DIFF, t, d));
                }
            }
        }
    } else {
        cx.out(ty, ID_ADD_SUB, VACUOUS);
        cx.r.eval();
        cx.out(ty, ID_ADD_DIFF, VACUOUS);
    }
    // (t-d)+d = t  (consequence of the stated exactness)
    cx.r.eval();
    if let Ok(Some(x)) = sub {
        match call(slow, || x.add_d(dd)) {
            Err(p) => cx.viol(ty, ADD, key_op(ty, ADD, "panic"), format!("{}{} + {} panicked: {p} (second step of (t-d)+d, t={})", T::NAME, show_t(x.raw()), show_d(d), show_t(t)), replay_td(ty, ADD, x.raw(), d)),
            Ok(None) => cx.out(ty, ID_SUB_ADD, VACUOUS),
            Ok(Some(y)) => {
                cx.r.nontrivial_unique();
                if y.raw() == t {
                    cx.out(ty, ID_SUB_ADD, HOLDS)
                } else {
                    cx.viol(ty, ID_SUB_ADD, key_ty(ty, "identity-sub-add"), format!("{} t={} d={}: t-d = {}, (t-d)+d = {} != t", T::NAME, show_t(t), show_d(d), show_t(x.raw()), show_t(y.raw())), replay_td(ty, ID_SUB_ADD, t, d));
                }
            }
        }
    } else {
        cx.out(ty, ID_SUB_ADD, VACUOUS);
    }
}

/// SystemTime with negative seconds: the statement demands panic-freedom only; what was
/// returned is classified against the signed exact result for information.
fn run_td_neg<T: TimeLike>(cx: &mut Cx, t: Tv, d: Dv, slow: bool) {
    let ty = T::TY;
    let tt = T::mk(t);
    let dd = dur(d);
    for op in [ADD, SUBD] {
        cx.case();
        let got = call(slow, || if op == ADD { tt.add_d(dd) } else { tt.sub_d(dd) });
        let exact = signed_time(if op == ADD { tns(t) + dns(d) } else { tns(t) - dns(d) });
        match got {
            Err(p) => cx.viol(ty, op, key_op(ty, op, "panic"), format!("{}{} {} {} panicked: {p}", T::NAME, show_t(t), if op == ADD { "+" } else { "-" }, show_d(d)), replay_td(ty, op, t, d)),
            Ok(Some(x)) => cx.out(ty, op, if Some(x.raw()) == exact { NEG_SOME_EXACT } else { NEG_SOME_INEXACT }),
            Ok(None) => cx.out(ty, op, if exact.is_some() { NEG_NONE_REPR } else { NEG_NONE }),
        }
    }
}

// ---------------------------------------------------------------------------
// group "tt": two time values

type OrdObs = (Ordering, Option<Ordering>, [bool; 6]);

#[inline]
fn observe_ord<T: Mk>(a: T, b: T) -> OrdObs {
    (a.cmp(&b), a.partial_cmp(&b), [a < b, a <= b, a > b, a >= b, a == b, a != b])
}
fn expected_ord(e: Ordering) -> OrdObs {
    (e, Some(e), [e == Ordering::Less, e != Ordering::Greater, e == Ordering::Greater, e != Ordering::Less, e == Ordering::Equal, e != Ordering::Equal])
}

fn judge_ord<T: Mk>(cx: &mut Cx, a: Tv, b: Tv, got: &Result<OrdObs, String>) {
    let ty = T::TY;
    let e = tns(a).cmp(&tns(b));
    match got {
        Err(p) => cx.viol(ty, ORD, key_op(ty, ORD, "panic"), format!("comparing {}{} with {} panicked: {p}", T::NAME, show_t(a), show_t(b)), replay_tt(ty, ORD, a, b)),
        Ok(o) if *o == expected_ord(e) => cx.out(ty, ORD, match e {
            Ordering::Less => LESS,
            Ordering::Equal => EQUAL,
            Ordering::Greater => GREATER,
        }),
        Ok(o) => cx.viol(
            ty,
            ORD,
            key_ty(ty, "ord-disagrees"),
            format!("{} a={} b={}: (cmp, partial_cmp, [<,<=,>,>=,==,!=]) = {o:?} but the exact difference a-b is {e:?} ({} ns)", T::NAME, show_t(a), show_t(b), tns(a) - tns(b)),
            replay_tt(ty, ORD, a, b),
        ),
    }
}

fn run_tt<T: TimeLike>(cx: &mut Cx, a: Tv, b: Tv, slow: bool) {
    if a.s < 0 || b.s < 0 {
        return run_tt_neg::<T>(cx, a, b, slow);
    }
    let ty = T::TY;
    let (ta, tb) = (T::mk(a), T::mk(b));
    let want = want_dur(tns(a) - tns(b));
    let sub = call(slow, || ta.sub_t(tb));
    cx.case();
    judge_dur::<T>(cx, SUB, a, b, &sub, want);
    let ds = call(slow, || ta.dur_since(tb));
    cx.case();
    judge_dur::<T>(cx, DSINCE, a, b, &ds, want);
    let ord = call(slow, || observe_ord(ta, tb));
    cx.case();
    judge_ord::<T>(cx, a, b, &ord);
    // "ordering agrees with subtraction": the implementation's own a-b against its own a<=>b
    if let (Ok(s), Ok(o)) = (&sub, &ord) {
        let ge = o.0 != Ordering::Less;
        let eq = o.0 == Ordering::Equal;
        if s.is_some() != ge || (*s == Some(Duration::ZERO)) != eq {
            cx.viol(
                ty,
                ORD,
                key_ty(ty, "ord-disagrees-with-sub"),
                format!("{} a={} b={}: a.cmp(b) = {:?} but a - b = {:?}", T::NAME, show_t(a), show_t(b), o.0, s.map(dv)),
                replay_tt(ty, ORD, a, b),
            );
        }
    }
}

fn run_tt_neg<T: TimeLike>(cx: &mut Cx, a: Tv, b: Tv, slow: bool) {
    let ty = T::TY;
    let (ta, tb) = (T::mk(a), T::mk(b));
    let exact = match want_dur(tns(a) - tns(b)) {
        Want::Some(d) => Some(d),
        _ => None,
    };
    for op in [SUB, DSINCE] {
        cx.case();
        match call(slow, || if op == SUB { ta.sub_t(tb) } else { ta.dur_since(tb) }) {
            Err(p) => cx.viol(ty, op, key_op(ty, op, "panic"), format!("{} on {}{} and {} panicked: {p}", OP_TEXT[op], T::NAME, show_t(a), show_t(b)), replay_tt(ty, op, a, b)),
            Ok(Some(x)) => cx.out(ty, op, if Some(dv(x)) == exact { NEG_SOME_EXACT } else { NEG_SOME_INEXACT }),
            Ok(None) => cx.out(ty, op, if exact.is_some() { NEG_NONE_REPR } else { NEG_NONE }),
        }
    }
    cx.case();
    match call(slow, || observe_ord(ta, tb)) {
        Err(p) => cx.viol(ty, ORD, key_op(ty, ORD, "panic"), format!("comparing {}{} with {} panicked: {p}", T::NAME, show_t(a), show_t(b)), replay_tt(ty, ORD, a, b)),
        Ok(o) => cx.out(ty, ORD, if o == expected_ord(tns(a).cmp(&tns(b))) { NEG_ORD_EXACT } else { NEG_ORD_INEXACT }),
    }
}

// ---------------------------------------------------------------------------
// unary groups

fn run_unix(cx: &mut Cx, t: Tv, slow: bool) {
    let ty = SystemTime::TY;
    let st = SystemTime::mk(t);
    cx.case();
    let got = call(slow, || st.since_unix());
    let replay = || json!({"group": "unix", "type": "SystemTime", "op": OPS[UNIX], "t": jt(t)});
    match got {
        Err(p) => cx.viol(ty, UNIX, key_op(ty, UNIX, "panic"), format!("SystemTime{}.duration_since_unix_time() panicked: {p}", show_t(t)), replay()),
        Ok(g) => {
            let want = Dv { s: t.s as u64, n: t.n as u32 };
            if t.s < 0 {
                // only panic-freedom is demanded here
                cx.out(ty, UNIX, NEG_RETURNED);
            } else if dv(g) == want {
                cx.out(ty, UNIX, EXACT);
            } else {
                cx.viol(ty, UNIX, key_op(ty, UNIX, "wrong-result"), format!("SystemTime{}.duration_since_unix_time() = {}; exact result {}", show_t(t), show_d(dv(g)), show_d(want)), replay());
            }
        }
    }
}

fn run_mono_ord(cx: &mut Cx, a: Tv, b: Tv, slow: bool) {
    let (ma, mb) = (MonotonicInstant::mk(a), MonotonicInstant::mk(b));
    let ord = call(slow, || observe_ord(ma, mb));
    cx.case();
    judge_ord::<MonotonicInstant>(cx, a, b, &ord);
}

fn run_mono_conv(cx: &mut Cx, t: Tv, slow: bool) {
    let ty = MonotonicInstant::TY;
    let m = MonotonicInstant::mk(t);
    cx.case();
    let replay = || json!({"group": "mono-conv", "type": "MonotonicInstant", "op": OPS[AS_INSTANT], "t": jt(t)});
    match call(slow, || m.as_instant()) {
        Err(p) => cx.viol(ty, AS_INSTANT, key_op(ty, AS_INSTANT, "panic"), format!("MonotonicInstant{}.as_instant() panicked: {p}", show_t(t)), replay()),
        Ok(i) if Mk::raw(i) == t => cx.out(ty, AS_INSTANT, EXACT),
        Ok(i) => cx.viol(ty, AS_INSTANT, key_op(ty, AS_INSTANT, "wrong-result"), format!("MonotonicInstant{}.as_instant() = Instant{}", show_t(t), show_t(Mk::raw(i))), replay()),
    }
}

fn run_constants(cx: &mut Cx) {
    cx.case();
    match catch(|| tiny_std::time::UNIX_TIME.raw()) {
        Ok(Tv { s: 0, n: 0 }) => cx.out(1, CONST, EXACT),
        other => cx.viol(1, CONST, key_op(1, CONST, "wrong-result"), format!("UNIX_TIME is {other:?}, not (0s,0ns)"), json!({"group": "const"})),
    }
    cx.case();
    match catch(|| MonotonicInstant::ZERO.raw()) {
        Ok(Tv { s: 0, n: 0 }) => cx.out(2, CONST, EXACT),
        other => cx.viol(2, CONST, key_op(2, CONST, "wrong-result"), format!("MonotonicInstant::ZERO is {other:?}, not (0s,0ns)"), json!({"group": "const"})),
    }
}

// ---------------------------------------------------------------------------
// the grid

struct Grid {
    secs: Vec<i64>,
    neg_secs: Vec<i64>,
    nanos: Vec<i64>,
    dsecs: Vec<u64>,
    /// grid time values at or after the epoch, simplest first
    v0: Vec<Tv>,
    /// grid time values with negative seconds (SystemTime panic-freedom)
    vneg: Vec<Tv>,
    d: Vec<Dv>,
    /// v0 followed by every exact t+d / t-d (t in v0, d in d) that is a representable time value
    v1: Vec<Tv>,
}

fn dedup_keep_order<T: Ord + Copy>(v: Vec<T>) -> Vec<T> {
    let mut seen = BTreeSet::new();
    v.into_iter().filter(|x| seen.insert(*x)).collect()
}

fn grid(thorough: bool) -> Grid {
    const M: i64 = i64::MAX;
    let (secs, neg_secs, nanos, dsecs): (Vec<i64>, Vec<i64>, Vec<i64>, Vec<u64>) = if !thorough {
        (
            // besides 0 / 10^9 / the type limits: the quotients and remainders a nanosecond fast path would
            // compare with (i64::MAX / 10^9 = 9_223_372_036 rem 854_775_807, u64::MAX / 10^9 = 18_446_744_073
            // rem 709_551_615) and the 32-bit limits, each with its neighbours
            vec![0, 1, 2, 1_000_000_000, (1 << 31) - 1, 1 << 31, (1 << 32) - 1, 1 << 32, M / 1_000_000_000 - 1, M / 1_000_000_000, M / 1_000_000_000 + 1,
                 18_446_744_072, 18_446_744_073, 18_446_744_074, M - 2, M - 1, M],
            vec![-1, -2, i64::MIN + 2, i64::MIN + 1, i64::MIN],
            vec![0, 1, 2, 499_999_999, 500_000_000, 709_551_614, 709_551_615, 709_551_616, 854_775_806, 854_775_807, 854_775_808, 999_999_998, 999_999_999],
            vec![0, 1, 2, M as u64 / 1_000_000_000 - 1, M as u64 / 1_000_000_000, M as u64 / 1_000_000_000 + 1, 18_446_744_073, 18_446_744_074,
                 M as u64 - 1, M as u64, M as u64 + 1, u64::MAX - 1, u64::MAX],
        )
    } else {
        // +-3 neighbourhoods of every constant a plausible implementation compares with
        let mut s: Vec<i64> = vec![0, 1, 2, 3];
        for p in [1_000_000_000, 1i64 << 31, 1 << 32, M / 1_000_000_000, 1 << 62] {
            s.extend(p - 3..=p + 3);
        }
        s.extend([M - 3, M - 2, M - 1, M]);
        let mut ng: Vec<i64> = vec![-1, -2, -3, -1_000_000_000, -(1 << 31), -(1 << 31) - 1, -(1 << 32)];
        ng.extend([i64::MIN + 3, i64::MIN + 2, i64::MIN + 1, i64::MIN]);
        let n: Vec<i64> = vec![0, 1, 2, 3, 499_999_998, 499_999_999, 500_000_000, 500_000_001, 500_000_002, 709_551_613, 709_551_614, 709_551_615, 709_551_616,
            709_551_617, 854_775_805, 854_775_806, 854_775_807, 854_775_808, 854_775_809, 999_999_996, 999_999_997, 999_999_998, 999_999_999];
        let mut ds: Vec<u64> = vec![0, 1, 2, 3];
        for p in [1_000_000_000, 1u64 << 31, 1 << 32, M as u64 / 1_000_000_000, u64::MAX / 1_000_000_000, 1 << 62] {
            ds.extend(p - 3..=p + 3);
        }
        ds.extend((M as u64 - 3)..=(M as u64 + 4));
        ds.extend([u64::MAX - 3, u64::MAX - 2, u64::MAX - 1, u64::MAX]);
        (s, ng, n, ds)
    };
    let secs = dedup_keep_order(secs);
    let neg_secs = dedup_keep_order(neg_secs);
    let dsecs = dedup_keep_order(dsecs);
    let cart = |ss: &[i64]| -> Vec<Tv> { ss.iter().flat_map(|&s| nanos.iter().map(move |&n| Tv { s, n })).collect() };
    let v0 = cart(&secs);
    let vneg = cart(&neg_secs);
    let d: Vec<Dv> = dsecs.iter().flat_map(|&s| nanos.iter().map(move |&n| Dv { s, n: n as u32 })).collect();
    let base: BTreeSet<Tv> = v0.iter().copied().collect();
    let mut derived = BTreeSet::new();
    for &t in &v0 {
        for &dd in &d {
            for total in [tns(t) + dns(dd), tns(t) - dns(dd)] {
                if let Want::Some(x) = want_time(total) {
                    if !base.contains(&x) {
                        derived.insert(x);
                    }
                }
            }
        }
    }
    let mut v1 = v0.clone();
    v1.extend(derived);
    Grid { secs, neg_secs, nanos, dsecs, v0, vneg, d, v1 }
}

#[derive(Clone, Copy, Debug)]
enum Job {
    /// rows lo..hi of v1, every Duration
    Td { ty: usize, lo: usize, hi: usize },
    /// rows lo..hi of v1 against every v1 value (all ordered pairs)
    Tt { ty: usize, lo: usize, hi: usize },
    Unix,
    Neg,
    MonoOrd { lo: usize, hi: usize },
    MonoConv,
}

fn run_job(g: &Grid, job: Job) -> Report {
    let mut cx = Cx::new();
    match job {
        Job::Td { ty, lo, hi } => {
            for &t in &g.v1[lo..hi] {
                guarded_row(&mut cx, |cx, slow| {
                    for &d in &g.d {
                        match ty {
                            0 => run_td::<Instant>(cx, t, d, slow),
                            _ => run_td::<SystemTime>(cx, t, d, slow),
                        }
                    }
                });
            }
        }
        Job::Tt { ty, lo, hi } => {
            for &a in &g.v1[lo..hi] {
                guarded_row(&mut cx, |cx, slow| {
                    for &b in &g.v1 {
                        match ty {
                            0 => run_tt::<Instant>(cx, a, b, slow),
                            _ => run_tt::<SystemTime>(cx, a, b, slow),
                        }
                    }
                });
            }
        }
        Job::Unix => {
            guarded_row(&mut cx, |cx, slow| {
                for &t in g.v1.iter().chain(&g.vneg) {
                    run_unix(cx, t, slow);
                }
            });
            run_constants(&mut cx);
        }
        Job::Neg => {
            for &t in &g.vneg {
                guarded_row(&mut cx, |cx, slow| {
                    for &d in &g.d {
                        run_td::<SystemTime>(cx, t, d, slow);
                    }
                    for &b in g.v0.iter().chain(&g.vneg) {
                        run_tt::<SystemTime>(cx, t, b, slow);
                    }
                    for &a in &g.v0 {
                        run_tt::<SystemTime>(cx, a, t, slow);
                    }
                });
            }
        }
        Job::MonoOrd { lo, hi } => {
            for &a in &g.v1[lo..hi] {
                guarded_row(&mut cx, |cx, slow| {
                    for &b in &g.v1 {
                        run_mono_ord(cx, a, b, slow);
                    }
                });
            }
        }
        Job::MonoConv => {
            guarded_row(&mut cx, |cx, slow| {
                for &t in &g.v1 {
                    run_mono_conv(cx, t, slow);
                }
            });
        }
    }
    cx.finish()
}

fn arith(args: &Args) -> Report {
    selfcheck();
    let g = grid(args.thorough);
    let n1 = g.v1.len();
    let chunk = (n1 / 96).max(8);
    let mut jobs = Vec::new();
    for ty in 0..2 {
        let mut lo = 0;
        while lo < n1 {
            jobs.push(Job::Td { ty, lo, hi: (lo + chunk).min(n1) });
            lo += chunk;
        }
        let mut lo = 0;
        while lo < n1 {
            jobs.push(Job::Tt { ty, lo, hi: (lo + chunk).min(n1) });
            lo += chunk;
        }
        if ty == 1 {
            jobs.push(Job::Unix);
            jobs.push(Job::Neg);
        }
    }
    let mut lo = 0;
    while lo < n1 {
        jobs.push(Job::MonoOrd { lo, hi: (lo + 4 * chunk).min(n1) });
        lo += 4 * chunk;
    }
    jobs.push(Job::MonoConv);

    let mut r = par_items(jobs.len(), args.seed, |i| run_job(&g, jobs[i]));

    // a handful of written-out cases (re-executed here, each call caught)
    let pick_t = [g.v0[0], g.v0[g.nanos.len() - 1], *g.v0.last().unwrap(), g.v1[n1 / 2]];
    let pick_d = [g.d[1], g.d[g.nanos.len() * 2 - 1], *g.d.last().unwrap()];
    for (i, &t) in pick_t.iter().enumerate() {
        let d = pick_d[i % pick_d.len()];
        let x = catch(|| Instant::mk(t).add_d(dur(d)).map(Mk::raw));
        r.sample(json!({"type": "Instant", "op": "t + d", "t": show_t(t), "d": show_d(d), "got": format!("{x:?}"), "exact": show_want(want_time(tns(t) + dns(d)), show_t)}));
        let y = catch(|| SystemTime::mk(t).sub_d(dur(d)).map(Mk::raw));
        r.sample(json!({"type": "SystemTime", "op": "t - d", "t": show_t(t), "d": show_d(d), "got": format!("{y:?}"), "exact": show_want(want_time(tns(t) - dns(d)), show_t)}));
        let b = g.v0[(i * 7 + 3) % g.v0.len()];
        let z = catch(|| Instant::mk(t).sub_t(Instant::mk(b)).map(dv));
        r.sample(json!({"type": "Instant", "op": "a - b", "a": show_t(t), "b": show_t(b), "got": format!("{z:?}"), "exact": show_want(want_dur(tns(t) - tns(b)), show_d)}));
    }

    r.rule = format!(
        "EXHAUSTIVE over a stated boundary grid (no sampling). V0 = seconds {{{} values}} x nanoseconds {{{} values}} (all normalised, at or after the epoch/boot); \
         D = Duration seconds {{{} values}} x the same nanoseconds; V1 = V0 plus every exact t+d and t-d (t in V0, d in D) that is itself a representable time value ({} values). \
         For Instant and for SystemTime: every (t in V1, d in D) through `t + d`, `t - d` and the identities (t+d)-d=t, (t+d)-t=d, (t-d)+d=t; every ordered pair (a, b) in V1 x V1 \
         through `a - b`, duration_since, and cmp/partial_cmp/<,<=,>,>=,==,!=, plus agreement of the implementation's own cmp with its own a-b; SystemTime::duration_since_unix_time for every t in V1; \
         MonotonicInstant: the same comparison set on the same pairs and as_instant() on every t in V1. Reference: exact i128 nanosecond arithmetic; a result must be Some(exact, normalised) when the exact \
         result is >= 0 and its seconds fit i64 (u64 for a Duration), None otherwise. SystemTime values with negative seconds ({} values; against every d in D and every value of V0 and of themselves, both orders): \
         panic-freedom only, what is returned is classified (outcomes negdomain-no-panic:*) but never judged. Every (type, operation, operand tuple) is generated exactly once; an identity counts as non-trivial only when \
         all its intermediate results are Some. Every call of the code under test runs under common::catch (one catch per grid row; a row that panics is re-run with one catch per call for attribution).",
        g.secs.len(),
        g.nanos.len(),
        g.dsecs.len(),
        n1,
        g.vneg.len()
    );
    r.bound("seconds", json!(g.secs.iter().map(|s| s.to_string()).collect::<Vec<_>>()));
    r.bound("negative_seconds_systemtime", json!(g.neg_secs.iter().map(|s| s.to_string()).collect::<Vec<_>>()));
    r.bound("nanoseconds", json!(g.nanos));
    r.bound("duration_seconds", json!(g.dsecs.iter().map(|s| s.to_string()).collect::<Vec<_>>()));
    r.bound("time_values_V0", g.v0.len());
    r.bound("time_values_V1_closure", n1);
    r.bound("durations", g.d.len());
    r.bound("overflow_checks_in_this_build(observed)", catch(|| std::hint::black_box(i32::MAX) + std::hint::black_box(1)).is_err());
    r.note("time.rs exposes no checked_add/checked_sub methods: `+ Duration`, `- Duration` and `a - b` are operator impls returning Option, so there is no operator with a documented panic; every panic is a violation");
    r.note("Instant and MonotonicInstant have no public constructor: values are built by transmute from rusl::platform::TimeSpec (single-field wrappers) and verified by a start-up self-check against AsRef<TimeSpec> and the Debug rendering");
    r.note("elapsed() of all three types reads the clock and is exercised in phase `clock`, not here");
    r
}

// ---------------------------------------------------------------------------
// phase clock (SAMPLED)

fn libc_mono() -> i128 {
    let mut ts: libc::timespec = unsafe { core::mem::zeroed() };
    let rc = unsafe { libc::clock_gettime(libc::CLOCK_MONOTONIC, &mut ts) };
    assert_eq!(rc, 0);
    ts.tv_sec as i128 * G + ts.tv_nsec as i128
}

fn readings(r: &mut Report, name: &str, n: usize, now: &dyn Fn(usize) -> Tv) {
    let mut prev: Option<Tv> = None;
    for i in 0..n {
        r.eval();
        let cur = match catch(|| now(i)) {
            Ok(c) => c,
            Err(p) => {
                r.violation(&format!("C19:{name}:panic"), format!("{name}: reading #{i} panicked: {p}"), json!({"group": "clock", "what": name}));
                continue;
            }
        };
        if let Some(p) = prev {
            r.nontrivial_unique();
            match tns(cur).cmp(&tns(p)) {
                Ordering::Less => {
                    r.outcome(&format!("{name}:DECREASED"));
                    r.violation(&format!("C19:{name}:decreased"), format!("{name}: reading #{i} = {} after {}", show_t(cur), show_t(p)), json!({"group": "clock", "what": name}));
                }
                Ordering::Equal => r.outcome(&format!("{name}:equal")),
                Ordering::Greater => r.outcome(&format!("{name}:increased")),
            }
        }
        prev = Some(cur);
    }
}

/// the kernel's own CLOCK_MONOTONIC reading: the `syscall` instruction, not libc's vDSO shortcut
fn kernel_mono() -> i128 {
    let mut ts: libc::timespec = unsafe { core::mem::zeroed() };
    let rc = unsafe { libc::syscall(libc::SYS_clock_gettime, libc::CLOCK_MONOTONIC, &mut ts as *mut libc::timespec) };
    assert_eq!(rc, 0);
    ts.tv_sec as i128 * G + ts.tv_nsec as i128
}

/// Clock identity on the system-call path of this build (tiny-std without feature `vdso`): every
/// reading must lie between the kernel's CLOCK_MONOTONIC readings taken before and after it.
/// (The vDSO build of the same functions is sandwiched by the probe of lib/steps_clock.py.)
fn sandwich(r: &mut Report, name: &str, n: usize, reading: &dyn Fn() -> Option<Tv>) {
    let mut before = kernel_mono();
    for i in 0..n {
        r.eval();
        r.nontrivial_unique();
        let got = catch(reading);
        let after = kernel_mono();
        let replay = json!({"group": "clock", "what": name});
        match got {
            Err(p) => r.violation(&format!("C19:syscall:{name}:panic"), format!("{name}: reading #{i} panicked: {p}"), replay),
            Ok(None) => r.violation(&format!("C19:syscall:{name}:none-for-past-reading"), format!("{name}() of an earlier reading returned None (call #{i})"), replay),
            Ok(Some(v)) => {
                let t = tns(v);
                if t < before || t > after {
                    r.outcome(&format!("sandwich:{name}:OUTSIDE"));
                    r.violation(
                        &format!("C19:syscall:{name}:reading-outside-kernel-sandwich"),
                        format!(
                            "{name} (system-call path, build without feature vdso): reading #{i} = {t} ns is {} the kernel's CLOCK_MONOTONIC readings around it (before {before} ns, after {after} ns): successive readings of the monotonic clock decrease",
                            if t < before { "earlier than" } else { "later than" }
                        ),
                        replay,
                    );
                } else {
                    r.outcome(&format!("sandwich:{name}:inside-kernel-sandwich"));
                }
            }
        }
        before = after;
    }
}

static SIGNALS_SEEN: std::sync::atomic::AtomicUsize = std::sync::atomic::AtomicUsize::new(0);
extern "C" fn on_usr1(_: libc::c_int) {
    SIGNALS_SEEN.fetch_add(1, std::sync::atomic::Ordering::SeqCst);
}

fn sleep_trial(r: &mut Report, d: Duration, label: &str) {
    r.eval();
    r.nontrivial_unique();
    let t0 = libc_mono();
    let res = catch(|| tiny_std::thread::sleep(d));
    let t1 = libc_mono();
    let elapsed = t1 - t0;
    let how = match &res {
        Ok(Ok(())) => "ok".to_string(),
        Ok(Err(e)) => format!("err({e:?})"),
        Err(p) => format!("panic({p})"),
    };
    r.outcome(&format!("{label}({d:?}):{}", how.split('(').next().unwrap()));
    if elapsed < d.as_nanos() as i128 {
        r.violation("C19:sleep:returned-early", format!("sleep({d:?}) [{label}] came back ({how}) after {elapsed} ns by CLOCK_MONOTONIC"), json!({"group": "clock", "what": "sleep", "nanos": d.as_nanos().to_string()}));
    }
}

fn clock(_args: &Args) -> Report {
    selfcheck();
    let mut r = Report::new();
    const N: usize = 100_000;
    readings(&mut r, "Instant::now", N, &|_| Instant::now().raw());
    readings(&mut r, "MonotonicInstant::now", N, &|_| MonotonicInstant::now().raw());
    readings(&mut r, "rusl::clock_get_monotonic_time", N, &|_| ts_tv(&rusl::time::clock_get_monotonic_time()));
    readings(&mut r, "interleaved(Instant,MonotonicInstant,rusl)", N, &|i| match i % 3 {
        0 => Instant::now().raw(),
        1 => MonotonicInstant::now().raw(),
        _ => ts_tv(&rusl::time::clock_get_monotonic_time()),
    });
    // elapsed() of a past reading: Some, and never decreasing
    {
        let i0 = Instant::now();
        let m0 = MonotonicInstant::now();
        let s0 = SystemTime::now();
        let mut prev = (Duration::ZERO, Duration::ZERO);
        for k in 0..10_000 {
            r.eval();
            r.nontrivial_unique();
            match catch(|| (i0.elapsed(), m0.elapsed(), s0.elapsed())) {
                Err(p) => r.violation("C19:elapsed:panic", format!("elapsed() call #{k} panicked: {p}"), json!({"group": "clock", "what": "elapsed"})),
                Ok((ie, me, se)) => {
                    match ie {
                        None => r.violation("C19:Instant::elapsed:none-for-past-instant", format!("Instant::elapsed() of an earlier reading returned None (call #{k})"), json!({"group": "clock", "what": "elapsed"})),
                        Some(e) => {
                            if e < prev.0 {
                                r.violation("C19:Instant::elapsed:decreased", format!("Instant::elapsed() went from {:?} to {e:?}", prev.0), json!({"group": "clock", "what": "elapsed"}));
                            }
                            prev.0 = e;
                        }
                    }
                    if me < prev.1 {
                        r.violation("C19:MonotonicInstant::elapsed:decreased", format!("MonotonicInstant::elapsed() went from {:?} to {me:?}", prev.1), json!({"group": "clock", "what": "elapsed"}));
                    }
                    prev.1 = me;
                    // the wall clock may be stepped: only its class is recorded
                    r.outcome(if se.is_some() { "SystemTime::elapsed:some" } else { "SystemTime::elapsed:none(clock stepped back)" });
                    r.outcome("elapsed:non-decreasing");
                }
            }
        }
    }
    // clock identity of the system-call path: kernel reading, library reading, kernel reading
    {
        const NS: usize = 20_000;
        let plus = |t: Tv, e: Duration| -> Tv {
            let total = tns(t) + e.as_nanos() as i128;
            Tv { s: (total / G) as i64, n: (total % G) as i64 }
        };
        sandwich(&mut r, "Instant::now", NS, &|| Some(Instant::now().raw()));
        sandwich(&mut r, "MonotonicInstant::now", NS, &|| Some(MonotonicInstant::now().raw()));
        sandwich(&mut r, "rusl::clock_get_monotonic_time", NS, &|| Some(ts_tv(&rusl::time::clock_get_monotonic_time())));
        let i0 = Instant::now();
        let m0 = MonotonicInstant::now();
        sandwich(&mut r, "Instant::elapsed", NS, &|| i0.elapsed().map(|e| plus(i0.raw(), e)));
        sandwich(&mut r, "MonotonicInstant::elapsed", NS, &|| Some(plus(m0.raw(), m0.elapsed())));
        r.bound("sandwiched_readings_per_entry_point", NS);
    }
    // sleep against the libc stopwatch
    for (d, reps) in [(Duration::ZERO, 200), (Duration::from_micros(1), 200), (Duration::from_millis(1), 30), (Duration::from_millis(20), 8)] {
        for _ in 0..reps {
            sleep_trial(&mut r, d, "sleep");
        }
    }
    // sleep interrupted by real signals (handler installed without SA_RESTART; nanosleep reports EINTR + remainder)
    unsafe {
        let mut sa: libc::sigaction = core::mem::zeroed();
        sa.sa_sigaction = on_usr1 as *const () as usize;
        libc::sigaction(libc::SIGUSR1, &sa, core::ptr::null_mut());
    }
    let me = unsafe { libc::pthread_self() } as usize;
    for _ in 0..5 {
        let before = SIGNALS_SEEN.load(std::sync::atomic::Ordering::SeqCst);
        let h = std::thread::spawn(move || {
            for _ in 0..3 {
                std::thread::sleep(std::time::Duration::from_millis(4));
                unsafe { libc::pthread_kill(me as libc::pthread_t, libc::SIGUSR1) };
            }
        });
        sleep_trial(&mut r, Duration::from_millis(20), "sleep-with-signals");
        let seen = SIGNALS_SEEN.load(std::sync::atomic::Ordering::SeqCst) - before;
        h.join().unwrap();
        r.outcome(&format!("sleep-with-signals:handlers-run-during-sleep={}", seen.min(3)));
    }
    unsafe {
        libc::signal(libc::SIGUSR1, libc::SIG_DFL);
    }
    r.sample(json!({"what": "Instant::now", "reading": show_t(Instant::now().raw()), "libc CLOCK_MONOTONIC ns": libc_mono().to_string()}));
    r.sample(json!({"what": "sleep", "durations": ["0", "1us", "1ms", "20ms", "20ms with 3 SIGUSR1 at 4 ms spacing"]}));
    r.rule = format!(
        "SAMPLED, not exhaustive (real time cannot be enumerated; the guarantee is the kernel's): {N} consecutive readings each of Instant::now, MonotonicInstant::now, rusl clock_get_monotonic_time and of the three interleaved \
         must never decrease (exact (sec,nsec) comparison); 10000 successive elapsed() of one earlier Instant/MonotonicInstant must be Some and never decrease; tiny_std::thread::sleep(d) for d in {{0, 1us, 1ms, 20ms}} \
         (200/200/30/8 repetitions) and 5 x sleep(20ms) interrupted by three real SIGUSR1 must come back no earlier than d by libc clock_gettime(CLOCK_MONOTONIC) read before and after. \
         Clock identity on the system-call path (this build has no vdso feature): 20000 readings each of Instant::now, MonotonicInstant::now, rusl clock_get_monotonic_time, Instant::elapsed and MonotonicInstant::elapsed (as base+elapsed) \
         must lie between the kernel's CLOCK_MONOTONIC readings (raw clock_gettime system call) taken before and after them; the vDSO build of the same readers is covered by the probe step of lib/steps_clock.py. \
         A case is one reading compared with its predecessor or with its kernel sandwich, or one sleep. NOT covered here: the exhaustive virtual-clock enumeration of EINTR scripts for sleep (needs the syscall seam S2, built separately)."
    );
    r.bound("readings_per_api", N);
    r.bound("sleep_durations_ns", json!([0, 1_000, 1_000_000, 20_000_000]));
    r.exhaustive = false;
    r.note("phase clock is sampled by nature; the exhaustive part of C19 is phase arith");
    r
}

// ---------------------------------------------------------------------------
// replay

fn parse_t(v: &Value) -> Tv {
    Tv { s: v[0].as_str().expect("seconds as string").parse().expect("i64 seconds"), n: v[1].as_str().expect("nanos as string").parse().expect("i64 nanos") }
}
fn parse_d(v: &Value) -> Dv {
    Dv { s: v[0].as_str().expect("seconds as string").parse().expect("u64 seconds"), n: v[1].as_str().expect("nanos as string").parse().expect("u32 nanos") }
}

fn replay(v: &Value) -> Report {
    selfcheck();
    let ty = v["type"].as_str().unwrap_or("");
    let group = v["group"].as_str().unwrap_or("");
    println!("replaying {v}");
    let mut cx = Cx::new();
    match group {
        "td" => {
            let (t, d) = (parse_t(&v["t"]), parse_d(&v["d"]));
            match ty {
                "Instant" => {
                    println!("  t + d = {:?}", catch(|| Instant::mk(t).add_d(dur(d)).map(Mk::raw)));
                    println!("  t - d = {:?}", catch(|| Instant::mk(t).sub_d(dur(d)).map(Mk::raw)));
                    run_td::<Instant>(&mut cx, t, d, true)
                }
                _ => {
                    println!("  t + d = {:?}", catch(|| SystemTime::mk(t).add_d(dur(d)).map(Mk::raw)));
                    println!("  t - d = {:?}", catch(|| SystemTime::mk(t).sub_d(dur(d)).map(Mk::raw)));
                    run_td::<SystemTime>(&mut cx, t, d, true)
                }
            }
            println!("  exact t + d: {}", show_want(want_time(tns(t) + dns(d)), show_t));
            println!("  exact t - d: {}", show_want(want_time(tns(t) - dns(d)), show_t));
        }
        "tt" => {
            let (a, b) = (parse_t(&v["a"]), parse_t(&v["b"]));
            match ty {
                "Instant" => {
                    println!("  a - b = {:?}", catch(|| Instant::mk(a).sub_t(Instant::mk(b)).map(dv)));
                    println!("  a <=> b = {:?}", catch(|| observe_ord(Instant::mk(a), Instant::mk(b))));
                    run_tt::<Instant>(&mut cx, a, b, true)
                }
                "SystemTime" => {
                    println!("  a - b = {:?}", catch(|| SystemTime::mk(a).sub_t(SystemTime::mk(b)).map(dv)));
                    println!("  a <=> b = {:?}", catch(|| observe_ord(SystemTime::mk(a), SystemTime::mk(b))));
                    run_tt::<SystemTime>(&mut cx, a, b, true)
                }
                _ => {
                    println!("  a <=> b = {:?}", catch(|| observe_ord(MonotonicInstant::mk(a), MonotonicInstant::mk(b))));
                    run_mono_ord(&mut cx, a, b, true)
                }
            }
            println!("  exact a - b: {}", show_want(want_dur(tns(a) - tns(b)), show_d));
        }
        "unix" => run_unix(&mut cx, parse_t(&v["t"]), true),
        "mono-conv" => run_mono_conv(&mut cx, parse_t(&v["t"]), true),
        "const" => run_constants(&mut cx),
        "clock" => {
            println!("clock cases are sampled from real time and cannot be replayed exactly; re-running phase clock");
            let r = clock(&parse_args());
            for v in r.violations.values() {
                println!("VIOLATED {}: {}", v.key, v.desc);
            }
            return r;
        }
        _ => panic!("unknown replay group {group:?}"),
    }
    let mut r = cx.finish();
    if let Some(k) = v["key"].as_str() {
        r.violations.retain(|key, _| key == k);
    }
    for v in r.violations.values() {
        println!("VIOLATED {}: {}", v.key, v.desc);
    }
    if r.violations.is_empty() {
        println!("no violation on this case");
    }
    r
}

fn main() {
    let args = parse_args();
    install_panic_hook();
    if let Some(p) = &args.replay {
        let v = read_replay(p);
        let r = replay(&v);
        println!("{}", serde_json::to_string_pretty(&r.to_json()).unwrap());
        std::process::exit(if r.violations.is_empty() { 0 } else { 1 });
    }
    let phase = args.phase.clone().unwrap_or_else(|| "arith".into());
    let r = match phase.as_str() {
        "arith" => arith(&args),
        "clock" => clock(&args),
        _ => panic!("unknown phase"),
    };
    r.write(&args.out);
}
