//! E3: explicit-state breadth-first search with shortest-trace reconstruction.
//!
//! A state must be `Clone + Eq + Hash`; `succ` lists (label, next-state) pairs and
//! is expected to call the *real* step functions of the code under test.

use std::collections::{HashMap, VecDeque};
use std::hash::Hash;

pub struct Search<S, L> {
    pub states: u64,
    pub transitions: u64,
    pub max_depth: usize,
    pub depth_cap_hit: bool,
    /// first violation found (shortest, since the search is breadth-first)
    pub violation: Option<(Vec<L>, S, String)>,
    /// number of maximal traces (states without successors)
    pub terminal_states: u64,
}

/// Breadth-first search from `init`.  `inv` returns `Err(msg)` on a violated invariant.
/// `stop_at_first`: stop at the first violation (otherwise continue past violating states
/// without expanding them and keep only the first).
pub fn bfs<S, L>(
    init: Vec<S>,
    max_depth: usize,
    mut succ: impl FnMut(&S) -> Vec<(L, S)>,
    mut inv: impl FnMut(&S) -> Result<(), String>,
) -> Search<S, L>
where
    S: Clone + Eq + Hash,
    L: Clone,
{
    let mut seen: HashMap<S, (Option<S>, Option<L>)> = HashMap::new();
    let mut q: VecDeque<(S, usize)> = VecDeque::new();
    let mut r = Search { states: 0, transitions: 0, max_depth: 0, depth_cap_hit: false, violation: None, terminal_states: 0 };
    let trace_of = |seen: &HashMap<S, (Option<S>, Option<L>)>, s: &S| -> Vec<L> {
        let mut t = Vec::new();
        let mut cur = s.clone();
        while let Some((Some(p), Some(l))) = seen.get(&cur).map(|x| (x.0.clone(), x.1.clone())) {
            t.push(l);
            cur = p;
        }
        t.reverse();
        t
    };
    for s in init {
        if !seen.contains_key(&s) {
            seen.insert(s.clone(), (None, None));
            r.states += 1;
            if let Err(m) = inv(&s) {
                if r.violation.is_none() {
                    r.violation = Some((vec![], s.clone(), m));
                }
                continue;
            }
            q.push_back((s, 0));
        }
    }
    while let Some((s, d)) = q.pop_front() {
        r.max_depth = r.max_depth.max(d);
        if d >= max_depth {
            r.depth_cap_hit = true;
            continue;
        }
        let nexts = succ(&s);
        if nexts.is_empty() {
            r.terminal_states += 1;
        }
        for (l, n) in nexts {
            r.transitions += 1;
            if seen.contains_key(&n) {
                continue;
            }
            seen.insert(n.clone(), (Some(s.clone()), Some(l)));
            r.states += 1;
            if let Err(m) = inv(&n) {
                if r.violation.is_none() {
                    r.violation = Some((trace_of(&seen, &n), n.clone(), m));
                }
                continue;
            }
            q.push_back((n, d + 1));
        }
    }
    r
}
