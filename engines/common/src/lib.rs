//! Shared plumbing of the /verif harnesses: the report every harness hands to
//! `/verif/check`, panic capture, crash attribution, bounded-exhaustive
//! enumerators (engine E4) and shard parallelism.
//!
//! Nothing in here draws random numbers: every harness enumerates its space
//! completely; `seed` only rotates the order in which shards are started.

use serde_json::{json, Map, Value};
use std::collections::{BTreeMap, HashSet};
use std::hash::{Hash, Hasher};
use std::panic::{catch_unwind, AssertUnwindSafe};
use std::sync::atomic::{AtomicBool, AtomicUsize, Ordering};

pub mod xstate;

pub const MAX_SAMPLES: usize = 12;

#[derive(Clone, Debug)]
pub struct Violation {
    pub key: String,
    pub desc: String,
    pub replay: Value,
    pub count: u64,
}

/// What one harness run covered.  Merged across shards, serialised to the
/// `--out` file, turned into evidence by `/verif/check`.
#[derive(Default, Clone)]
pub struct Report {
    pub evaluations: u64,
    distinct: HashSet<u64>,
    /// cases that are distinct by construction of the enumerator (each generated once)
    pub distinct_by_construction: u64,
    pub states: u64,
    pub transitions: u64,
    pub traces_validated: u64,
    pub samples: Vec<Value>,
    pub violations: BTreeMap<String, Violation>,
    pub outcomes: BTreeMap<String, u64>,
    pub caps_hit: Vec<String>,
    pub bounds: Map<String, Value>,
    pub notes: Vec<String>,
    pub rule: String,
    pub exhaustive: bool,
}

pub fn hash_of<T: Hash + ?Sized>(t: &T) -> u64 {
    let mut h = std::collections::hash_map::DefaultHasher::new();
    t.hash(&mut h);
    h.finish()
}

impl Report {
    pub fn new() -> Self {
        Report { exhaustive: true, ..Default::default() }
    }
    #[inline]
    pub fn eval(&mut self) {
        self.evaluations += 1;
    }
    /// Record that a distinct, non-trivial case (by the harness's stated rule) was seen.
    #[inline]
    pub fn nontrivial<T: Hash + ?Sized>(&mut self, t: &T) {
        self.distinct.insert(hash_of(t));
    }
    /// Same, for enumerators that generate every case exactly once (no hashing needed).
    #[inline]
    pub fn nontrivial_unique(&mut self) {
        self.distinct_by_construction += 1;
    }
    pub fn distinct_nontrivial(&self) -> u64 {
        self.distinct.len() as u64 + self.distinct_by_construction
    }
    pub fn sample(&mut self, v: Value) {
        if self.samples.len() < MAX_SAMPLES {
            self.samples.push(v);
        }
    }
    #[inline]
    pub fn outcome(&mut self, name: &str) {
        match self.outcomes.get_mut(name) {
            Some(c) => *c += 1,
            None => {
                self.outcomes.insert(name.to_string(), 1);
            }
        }
    }
    pub fn outcome_n(&mut self, name: &str, n: u64) {
        *self.outcomes.entry(name.to_string()).or_insert(0) += n;
    }
    /// A violation is identified by `key`; the first case reported under a key
    /// (enumeration is simplest-first) is kept as the replay artefact.
    pub fn violation(&mut self, key: &str, desc: impl Into<String>, replay: Value) {
        match self.violations.get_mut(key) {
            Some(v) => v.count += 1,
            None => {
                self.violations.insert(
                    key.to_string(),
                    Violation { key: key.to_string(), desc: desc.into(), replay, count: 1 },
                );
            }
        }
    }
    pub fn cap(&mut self, what: impl Into<String>) {
        self.caps_hit.push(what.into());
        self.exhaustive = false;
    }
    pub fn bound(&mut self, k: &str, v: impl Into<Value>) {
        self.bounds.insert(k.to_string(), v.into());
    }
    pub fn note(&mut self, s: impl Into<String>) {
        self.notes.push(s.into());
    }
    pub fn merge(&mut self, o: Report) {
        self.evaluations += o.evaluations;
        self.distinct.extend(o.distinct);
        self.distinct_by_construction += o.distinct_by_construction;
        self.states += o.states;
        self.transitions += o.transitions;
        self.traces_validated += o.traces_validated;
        for s in o.samples {
            self.sample(s);
        }
        for (k, v) in o.violations {
            match self.violations.get_mut(&k) {
                Some(e) => e.count += v.count,
                None => {
                    self.violations.insert(k, v);
                }
            }
        }
        for (k, c) in o.outcomes {
            *self.outcomes.entry(k).or_insert(0) += c;
        }
        self.caps_hit.extend(o.caps_hit);
        for (k, v) in o.bounds {
            self.bounds.entry(k).or_insert(v);
        }
        self.notes.extend(o.notes);
        if self.rule.is_empty() {
            self.rule = o.rule;
        }
        self.exhaustive &= o.exhaustive;
    }
    pub fn to_json(&self) -> Value {
        json!({
            "evaluations": self.evaluations,
            "distinct_nontrivial": self.distinct_nontrivial(),
            "states": self.states,
            "transitions": self.transitions,
            "traces_validated_against_impl": self.traces_validated,
            "samples": self.samples,
            "violations": self.violations.values().map(|v| json!({
                "key": v.key, "desc": v.desc, "replay": v.replay, "count": v.count
            })).collect::<Vec<_>>(),
            "outcomes": self.outcomes,
            "caps_hit": self.caps_hit,
            "bounds": self.bounds,
            "notes": self.notes,
            "rule": self.rule,
            "exhaustive": self.exhaustive,
        })
    }
    /// Lossless form used between a forked shard and its parent.
    pub fn to_wire(&self) -> Value {
        let mut v = self.to_json();
        v["_distinct"] = json!(self.distinct.iter().collect::<Vec<_>>());
        v["_distinct_by_construction"] = json!(self.distinct_by_construction);
        v
    }
    pub fn from_wire(v: &Value) -> Report {
        let mut r = Report::new();
        r.evaluations = v["evaluations"].as_u64().unwrap_or(0);
        r.states = v["states"].as_u64().unwrap_or(0);
        r.transitions = v["transitions"].as_u64().unwrap_or(0);
        r.traces_validated = v["traces_validated_against_impl"].as_u64().unwrap_or(0);
        r.distinct_by_construction = v["_distinct_by_construction"].as_u64().unwrap_or(0);
        if let Some(a) = v["_distinct"].as_array() {
            r.distinct = a.iter().filter_map(|x| x.as_u64()).collect();
        }
        if let Some(a) = v["samples"].as_array() {
            r.samples = a.clone();
        }
        if let Some(a) = v["violations"].as_array() {
            for x in a {
                let key = x["key"].as_str().unwrap_or("?").to_string();
                r.violations.insert(key.clone(), Violation {
                    key,
                    desc: x["desc"].as_str().unwrap_or("").to_string(),
                    replay: x["replay"].clone(),
                    count: x["count"].as_u64().unwrap_or(1),
                });
            }
        }
        if let Some(m) = v["outcomes"].as_object() {
            for (k, c) in m {
                r.outcomes.insert(k.clone(), c.as_u64().unwrap_or(0));
            }
        }
        if let Some(a) = v["caps_hit"].as_array() {
            r.caps_hit = a.iter().filter_map(|x| x.as_str().map(String::from)).collect();
        }
        if let Some(m) = v["bounds"].as_object() {
            r.bounds = m.clone();
        }
        if let Some(a) = v["notes"].as_array() {
            r.notes = a.iter().filter_map(|x| x.as_str().map(String::from)).collect();
        }
        r.rule = v["rule"].as_str().unwrap_or("").to_string();
        r.exhaustive = v["exhaustive"].as_bool().unwrap_or(false);
        r
    }
    pub fn write(&self, path: &str) {
        let tmp = format!("{path}.tmp");
        std::fs::write(&tmp, serde_json::to_vec_pretty(&self.to_json()).unwrap()).expect("write report");
        std::fs::rename(&tmp, path).expect("rename report");
    }
}

// ---------------------------------------------------------------------------
// command line shared by all harness binaries

#[derive(Clone, Debug)]
pub struct Args {
    pub out: String,
    pub thorough: bool,
    pub seed: u64,
    pub replay: Option<String>,
    pub phase: Option<String>,
    pub rest: Vec<String>,
}

pub fn parse_args() -> Args {
    let mut a = Args { out: "/dev/stdout".into(), thorough: false, seed: 0, replay: None, phase: None, rest: vec![] };
    let mut it = std::env::args().skip(1);
    while let Some(x) = it.next() {
        match x.as_str() {
            "--out" => a.out = it.next().expect("--out FILE"),
            "--tier" => a.thorough = it.next().expect("--tier T") == "thorough",
            "--seed" => a.seed = it.next().expect("--seed N").parse().unwrap_or(0),
            "--replay" => a.replay = Some(it.next().expect("--replay FILE")),
            "--phase" => a.phase = Some(it.next().expect("--phase NAME")),
            _ => a.rest.push(x),
        }
    }
    a
}

pub fn read_replay(path: &str) -> Value {
    let v: Value = serde_json::from_slice(&std::fs::read(path).expect("read replay file")).expect("replay json");
    // the driver wraps the harness's replay value: {"property":..,"key":..,"replay":{..}}
    match v.get("replay") {
        Some(r) => r.clone(),
        None => v,
    }
}

// ---------------------------------------------------------------------------
// panic capture

thread_local! {
    static LAST_PANIC: std::cell::RefCell<Option<String>> = const { std::cell::RefCell::new(None) };
    static QUIET: std::cell::Cell<bool> = const { std::cell::Cell::new(false) };
}
static HOOK_SET: AtomicBool = AtomicBool::new(false);

pub fn install_panic_hook() {
    if HOOK_SET.swap(true, Ordering::SeqCst) {
        return;
    }
    let prev = std::panic::take_hook();
    std::panic::set_hook(Box::new(move |info| {
        let msg = if let Some(s) = info.payload().downcast_ref::<&str>() {
            (*s).to_string()
        } else if let Some(s) = info.payload().downcast_ref::<String>() {
            s.clone()
        } else {
            "<non-string panic>".to_string()
        };
        let loc = info.location().map(|l| format!(" at {}:{}", l.file(), l.line())).unwrap_or_default();
        LAST_PANIC.with(|p| *p.borrow_mut() = Some(format!("{msg}{loc}")));
        if !QUIET.with(|q| q.get()) {
            prev(info);
        }
    }));
}

/// Run `f`, turning a panic of the code under test into `Err(message)`.
pub fn catch<T>(f: impl FnOnce() -> T) -> Result<T, String> {
    install_panic_hook();
    let was = QUIET.with(|q| q.replace(true));
    let r = catch_unwind(AssertUnwindSafe(f));
    QUIET.with(|q| q.set(was));
    r.map_err(|_| LAST_PANIC.with(|p| p.borrow_mut().take()).unwrap_or_else(|| "<panic>".into()))
}

/// Strip the line number from a panic message so that it can be part of a stable key.
pub fn panic_site(msg: &str) -> String {
    match msg.rfind(" at ") {
        Some(i) => {
            let loc = &msg[i + 4..];
            let file = loc.rsplit('/').next().unwrap_or(loc);
            let file = file.split(':').next().unwrap_or(file);
            file.to_string()
        }
        None => "unknown".into(),
    }
}

// ---------------------------------------------------------------------------
// crash attribution: the case being executed is kept in a static buffer; a
// fatal signal raised by the code under test writes it next to the report and
// exits with status 77, which the driver turns into a violation of that case.

const CASE_CAP: usize = 4096;
static mut CASE_BUF: [u8; CASE_CAP] = [0; CASE_CAP];
static CASE_LEN: AtomicUsize = AtomicUsize::new(0);
static mut CRASH_PATH: [u8; 512] = [0; 512];

pub fn set_case(s: &str) {
    let b = s.as_bytes();
    let n = b.len().min(CASE_CAP);
    unsafe {
        std::ptr::copy_nonoverlapping(b.as_ptr(), std::ptr::addr_of_mut!(CASE_BUF) as *mut u8, n);
    }
    CASE_LEN.store(n, Ordering::SeqCst);
}
pub fn clear_case() {
    CASE_LEN.store(0, Ordering::SeqCst);
}

extern "C" fn crash_handler(sig: libc::c_int, _info: *mut libc::siginfo_t, _ctx: *mut libc::c_void) {
    unsafe {
        let fd = libc::open(std::ptr::addr_of!(CRASH_PATH) as *const libc::c_char, libc::O_WRONLY | libc::O_CREAT | libc::O_TRUNC, 0o644);
        if fd >= 0 {
            let hdr = [b'0' + (sig / 10) as u8, b'0' + (sig % 10) as u8, b'\n'];
            libc::write(fd, hdr.as_ptr() as *const _, 3);
            libc::write(fd, std::ptr::addr_of!(CASE_BUF) as *const _, CASE_LEN.load(Ordering::SeqCst));
            libc::close(fd);
        }
        libc::_exit(77);
    }
}

/// Arm crash attribution.  `out` is the report path; the crash note goes to `<out>.crash`.
pub fn install_crash_handler(out: &str) {
    let p = format!("{out}.crash\0");
    let _ = std::fs::remove_file(format!("{out}.crash"));
    unsafe {
        let n = p.len().min(511);
        std::ptr::copy_nonoverlapping(p.as_ptr(), std::ptr::addr_of_mut!(CRASH_PATH) as *mut u8, n);
        // alternate stack so that stack overflows are attributed too
        let sz = 1 << 16;
        let stk = libc::mmap(std::ptr::null_mut(), sz, libc::PROT_READ | libc::PROT_WRITE, libc::MAP_PRIVATE | libc::MAP_ANONYMOUS, -1, 0);
        let ss = libc::stack_t { ss_sp: stk, ss_flags: 0, ss_size: sz };
        libc::sigaltstack(&ss, std::ptr::null_mut());
        let mut sa: libc::sigaction = std::mem::zeroed();
        sa.sa_sigaction = crash_handler as usize;
        sa.sa_flags = libc::SA_SIGINFO | libc::SA_ONSTACK;
        for s in [libc::SIGSEGV, libc::SIGBUS, libc::SIGABRT, libc::SIGILL, libc::SIGFPE] {
            libc::sigaction(s, &sa, std::ptr::null_mut());
        }
    }
}

// ---------------------------------------------------------------------------
// E4 enumerators

/// Call `f` with every string over `alphabet` of length `0..=max_len`, shortest first,
/// in odometer order.  Returns the number of strings.
pub fn for_each_string(alphabet: &[u8], max_len: usize, mut f: impl FnMut(&[u8])) -> u64 {
    let mut n = 0u64;
    for len in 0..=max_len {
        let mut idx = vec![0usize; len];
        let mut buf = vec![alphabet.first().copied().unwrap_or(0); len];
        loop {
            f(&buf);
            n += 1;
            // increment
            let mut p = len;
            loop {
                if p == 0 {
                    break;
                }
                p -= 1;
                idx[p] += 1;
                if idx[p] < alphabet.len() {
                    buf[p] = alphabet[idx[p]];
                    p = usize::MAX;
                    break;
                }
                idx[p] = 0;
                buf[p] = alphabet[0];
            }
            if p != usize::MAX {
                break;
            }
        }
    }
    n
}

pub fn all_strings(alphabet: &[u8], max_len: usize) -> Vec<Vec<u8>> {
    let mut v = Vec::new();
    for_each_string(alphabet, max_len, |s| v.push(s.to_vec()));
    v
}

/// Every sequence of length `0..=max_len` over `0..n_symbols`, shortest first.
pub fn for_each_seq(n_symbols: usize, max_len: usize, mut f: impl FnMut(&[usize])) -> u64 {
    let mut n = 0;
    for len in 0..=max_len {
        let mut idx = vec![0usize; len];
        'outer: loop {
            f(&idx);
            n += 1;
            let mut p = len;
            loop {
                if p == 0 {
                    break 'outer;
                }
                p -= 1;
                idx[p] += 1;
                if idx[p] < n_symbols {
                    break;
                }
                idx[p] = 0;
            }
        }
    }
    n
}

/// All permutations of `0..n` (Heap's algorithm, deterministic order).
pub fn permutations(n: usize) -> Vec<Vec<usize>> {
    fn rec(k: usize, a: &mut Vec<usize>, out: &mut Vec<Vec<usize>>) {
        if k <= 1 {
            out.push(a.clone());
            return;
        }
        for i in 0..k {
            rec(k - 1, a, out);
            if k % 2 == 0 {
                a.swap(i, k - 1);
            } else {
                a.swap(0, k - 1);
            }
        }
    }
    let mut out = Vec::new();
    rec(n, &mut (0..n).collect(), &mut out);
    out.sort();
    out
}

pub fn show_bytes(b: &[u8]) -> String {
    let mut s = String::new();
    for &c in b {
        match c {
            0 => s.push_str("\\0"),
            b'\\' => s.push_str("\\\\"),
            0x20..=0x7e => s.push(c as char),
            _ => s.push_str(&format!("\\x{c:02x}")),
        }
    }
    s
}

pub fn parse_shown(s: &str) -> Vec<u8> {
    let b = s.as_bytes();
    let mut out = Vec::new();
    let mut i = 0;
    while i < b.len() {
        if b[i] == b'\\' && i + 1 < b.len() {
            match b[i + 1] {
                b'0' => {
                    out.push(0);
                    i += 2;
                }
                b'\\' => {
                    out.push(b'\\');
                    i += 2;
                }
                b'x' if i + 3 < b.len() => {
                    out.push(u8::from_str_radix(&s[i + 2..i + 4], 16).unwrap_or(b'?'));
                    i += 4;
                }
                _ => {
                    out.push(b[i]);
                    i += 1;
                }
            }
        } else {
            out.push(b[i]);
            i += 1;
        }
    }
    out
}

// ---------------------------------------------------------------------------
// shard parallelism (threads; for harnesses whose subject is thread-safe)

pub fn n_workers() -> usize {
    std::env::var("VERIF_JOBS").ok().and_then(|s| s.parse().ok()).unwrap_or_else(|| {
        std::thread::available_parallelism().map(|n| n.get()).unwrap_or(4)
    })
}

/// Run `work(i)` for `i in 0..n_items` on a pool of threads; merge the reports in item order.
pub fn par_items(n_items: usize, seed: u64, work: impl Fn(usize) -> Report + Sync) -> Report {
    let next = AtomicUsize::new(0);
    let results: std::sync::Mutex<Vec<(usize, Report)>> = std::sync::Mutex::new(Vec::new());
    let rot = if n_items > 0 { (seed as usize) % n_items } else { 0 };
    std::thread::scope(|s| {
        for _ in 0..n_workers().min(n_items.max(1)) {
            s.spawn(|| loop {
                let k = next.fetch_add(1, Ordering::SeqCst);
                if k >= n_items {
                    break;
                }
                let i = (k + rot) % n_items;
                let r = work(i);
                results.lock().unwrap().push((i, r));
            });
        }
    });
    let mut v = results.into_inner().unwrap();
    v.sort_by_key(|x| x.0);
    let mut total = Report::new();
    for (_, r) in v {
        total.merge(r);
    }
    total
}

pub fn now() -> std::time::Instant {
    std::time::Instant::now()
}

// ---------------------------------------------------------------------------
// process isolation: each item runs in a forked child with crash attribution, so
// that a fault or abort raised by the code under test becomes a violation of
// the case that was executing instead of taking the whole harness down.

pub struct Isolated {
    pub name: String,
    pub work: Box<dyn FnOnce() -> Report>,
}

pub fn isolated(name: impl Into<String>, work: impl FnOnce() -> Report + 'static) -> Isolated {
    Isolated { name: name.into(), work: Box::new(work) }
}

/// Run every item in its own forked child (at most `n_workers()` at a time) and merge.
/// `crash_key_prefix` e.g. "C11" gives violations keyed `C11:crash:<item>`.
pub fn run_isolated(items: Vec<Isolated>, out: &str, crash_key_prefix: &str) -> Report {
    use std::io::Write;
    let mut total = Report::new();
    let maxp = n_workers();
    let mut running: Vec<(libc::pid_t, String, String)> = Vec::new();
    let mut pending: std::collections::VecDeque<(usize, Isolated)> = items.into_iter().enumerate().collect();
    let mut finished: Vec<(usize, Report)> = Vec::new();
    let mut idx_of: std::collections::HashMap<libc::pid_t, usize> = Default::default();
    loop {
        while running.len() < maxp {
            let Some((i, it)) = pending.pop_front() else { break };
            let path = format!("{out}.shard{i}");
            let _ = std::fs::remove_file(&path);
            let _ = std::fs::remove_file(format!("{path}.crash"));
            std::io::stdout().flush().ok();
            std::io::stderr().flush().ok();
            let pid = unsafe { libc::fork() };
            if pid == 0 {
                install_crash_handler(&path);
                let r = (it.work)();
                std::fs::write(&path, serde_json::to_vec(&r.to_wire()).unwrap()).unwrap();
                std::io::stdout().flush().ok();
                unsafe { libc::_exit(0) };
            }
            assert!(pid > 0, "fork failed");
            idx_of.insert(pid, i);
            running.push((pid, it.name, path));
        }
        if running.is_empty() {
            break;
        }
        let mut status = 0;
        let pid = unsafe { libc::wait(&mut status) };
        let Some(pos) = running.iter().position(|r| r.0 == pid) else { continue };
        let (_, name, path) = running.swap_remove(pos);
        let i = idx_of[&pid];
        let mut r = Report::new();
        let exited_ok = libc::WIFEXITED(status) && libc::WEXITSTATUS(status) == 0;
        if exited_ok {
            let v: Value = serde_json::from_slice(&std::fs::read(&path).expect("shard report")).expect("shard json");
            r = Report::from_wire(&v);
        } else {
            let crash = std::fs::read(format!("{path}.crash")).unwrap_or_default();
            let crash = String::from_utf8_lossy(&crash).to_string();
            let (sig, case) = match crash.split_once('\n') {
                Some((a, b)) => (a.to_string(), b.to_string()),
                None => (format!("status{status}"), String::new()),
            };
            if case.is_empty() {
                // died outside any case: machinery failure, not a verdict
                eprintln!("MACHINERY: shard {name} died (status {status}) outside a case");
                r.cap(format!("shard {name} died outside a case (status {status})"));
                r.notes.push("machinery-failure".into());
            } else {
                let cv: Value = serde_json::from_str(&case).unwrap_or(Value::String(case.clone()));
                // stable key: the operation of the crashing case when it has one, else the shard name
                let what = cv.get("op").and_then(|o| o.as_str()).map(String::from).unwrap_or(name.clone());
                r.violation(
                    &format!("{crash_key_prefix}:{what}:crash"),
                    format!("fatal signal {sig} while executing case {case} (rest of shard {name} not run)"),
                    cv,
                );
                r.cap(format!("shard {name} stopped at a crashing case; its remaining cases were not run"));
            }
        }
        let _ = std::fs::remove_file(&path);
        let _ = std::fs::remove_file(format!("{path}.crash"));
        finished.push((i, r));
    }
    finished.sort_by_key(|x| x.0);
    for (_, r) in finished {
        total.merge(r);
    }
    total
}

// ---------------------------------------------------------------------------
// guard-page placement: operands are placed so that they end exactly at (or start
// exactly after) an inaccessible page; a read or write outside the operand faults
// and is attributed to the current case by the crash handler.

pub struct GuardArena {
    base: *mut u8,
    pages: usize,
}
unsafe impl Send for GuardArena {}

impl GuardArena {
    /// `pages` accessible pages with one PROT_NONE page on each side.
    pub fn new(pages: usize) -> Self {
        unsafe {
            let total = (pages + 2) * 4096;
            let p = libc::mmap(std::ptr::null_mut(), total, libc::PROT_NONE, libc::MAP_PRIVATE | libc::MAP_ANONYMOUS, -1, 0);
            assert!(p != libc::MAP_FAILED);
            let base = (p as *mut u8).add(4096);
            assert_eq!(0, libc::mprotect(base as *mut _, pages * 4096, libc::PROT_READ | libc::PROT_WRITE));
            GuardArena { base, pages }
        }
    }
    pub fn capacity(&self) -> usize {
        self.pages * 4096
    }
    /// Copy `b` so that its last byte is the last accessible byte.
    pub fn place_end(&mut self, b: &[u8]) -> &mut [u8] {
        assert!(b.len() <= self.capacity());
        unsafe {
            let p = self.base.add(self.capacity() - b.len());
            std::ptr::copy_nonoverlapping(b.as_ptr(), p, b.len());
            std::slice::from_raw_parts_mut(p, b.len())
        }
    }
    /// Copy `b` so that its first byte is the first accessible byte.
    pub fn place_start(&mut self, b: &[u8]) -> &mut [u8] {
        assert!(b.len() <= self.capacity());
        unsafe {
            std::ptr::copy_nonoverlapping(b.as_ptr(), self.base, b.len());
            std::slice::from_raw_parts_mut(self.base, b.len())
        }
    }
    pub fn end_ptr(&self) -> *mut u8 {
        unsafe { self.base.add(self.capacity()) }
    }
    pub fn start_ptr(&self) -> *mut u8 {
        self.base
    }
}
impl Drop for GuardArena {
    fn drop(&mut self) {
        unsafe {
            libc::munmap(self.base.sub(4096) as *mut _, (self.pages + 2) * 4096);
        }
    }
}
