//! C19 clock-identity probe ("which clock does each entry point of tiny_std::time read, on each
//! path?").
//!
//! A `#![no_std] #![no_main]` executable started through tiny-std's `_start` with feature
//! `executable` (=> `vdso`): the `#[cfg(feature = "vdso")]` bodies of `get_monotonic_time` /
//! `get_real_time` in tiny-std/src/time.rs are compiled in, and the start-up code has looked up
//! `__vdso_clock_gettime`.  vDSO calls are not system calls, so no syscall seam sees them; the
//! only observation point is the value that comes back.
//!
//! The same binary is also run through `synth/loader.c` (a user-space exec that changes nothing
//! but AT_SYSINFO_EHDR) against the synthetic vDSO images built from `synth/fakevdso.S`, in which
//! `__vdso_clock_gettime` sits at a chosen 16-byte phase of a `.text` with a chosen `sh_addralign`
//! and is surrounded by decoy functions answering a recognisably wrong time.
//!
//! For every clock-reading entry point of `tiny_std::time`
//!     0 MonotonicInstant::now      1 Instant::now
//!     2 MonotonicInstant::elapsed  3 Instant::elapsed          (clock: CLOCK_MONOTONIC)
//!     4 SystemTime::now            5 SystemTime::elapsed       (clock: CLOCK_REALTIME)
//! and for both paths inside the reader functions
//!     0 as started (vDSO function pointer as the start-up code left it)
//!     1 vDSO function pointer forced to `None` (the system-call fallback of the same build)
//! the probe takes N readings, each between two `clock_gettime` **system calls** (raw `syscall`
//! instruction) on the clock the entry point is documented to read, and counts the readings that
//! are earlier than the kernel reading before them or later than the one after them.
//! `elapsed()` entry points are turned into a reading as `base + elapsed`, the base being a
//! `now()` of the same type taken at the start of the section on the same path.
//!
//! Control block on stdin: `"PCK1" <n:u32 le> <have_sym:u8> <delta:i64 le>` (`have_sym`: 0 symbol
//! unknown, 1 known and path 1 wanted, 2 known but only report the pointer); `delta` is the
//! link-time distance from `PROBE_ANCHOR` to tiny-std's private
//! `elf::vdso::VDSO_CLOCK_GET_TIME` (found by the driver in the symbol table).
//!
//! Records on stdout `<tag:u8><len:u32 le><payload>`:
//!   'V' `<have_sym:u8> <pointer value:u64>`
//!   'S' `<entry:u8> <path:u8> <n:u32> <inside:u32> <earlier:u32> <later:u32> <kernel_went_back:u32>
//!        <none:u32> <first bad triple before/lib/after: 6 x i64> <ns spent in library calls:u64>`
//!   'Z' end marker
#![no_std]
#![no_main]

use core::time::Duration;
use rusl::platform::{TimeSpec, STDIN, STDOUT};
use tiny_std::time::{Instant, MonotonicInstant, SystemTime};

/// The address of this byte, minus its link-time address in the symbol table, is the load bias.
#[no_mangle]
#[used]
pub static PROBE_ANCHOR: u8 = 0x5a;

/// rustc >= 1.9x turns rusl's `strlen` loop into a call to `strlen` in optimised builds, and
/// nothing provides that symbol without libc (same remedy as in probe-start).
/// # Safety
/// `s` must point to a NUL terminated string
#[no_mangle]
pub unsafe extern "C" fn strlen(s: *const u8) -> usize {
    let mut i = 0usize;
    while core::ptr::read_volatile(s.add(i)) != 0 {
        i += 1;
    }
    i
}

// ---------------------------------------------------------------- output

const OUT_CAP: usize = 8 * 1024;
static mut OUT: [u8; OUT_CAP] = [0; OUT_CAP];
static mut OUT_LEN: usize = 0;

fn write_all(mut b: &[u8]) {
    while !b.is_empty() {
        match rusl::unistd::write(STDOUT, b) {
            Ok(0) => rusl::process::exit(101),
            Ok(n) => b = &b[n..],
            Err(e) => {
                if e.code == Some(rusl::error::Errno::EINTR) {
                    continue;
                }
                rusl::process::exit(101);
            }
        }
    }
}

fn flush() {
    unsafe {
        let len = OUT_LEN;
        let p = core::ptr::addr_of!(OUT).cast::<u8>();
        write_all(core::slice::from_raw_parts(p, len));
        OUT_LEN = 0;
    }
}

fn put(b: &[u8]) {
    unsafe {
        if OUT_LEN + b.len() > OUT_CAP {
            flush();
        }
        let p = core::ptr::addr_of_mut!(OUT).cast::<u8>().add(OUT_LEN);
        core::ptr::copy_nonoverlapping(b.as_ptr(), p, b.len());
        OUT_LEN += b.len();
    }
}

fn rec(tag: u8, payload: &[u8]) {
    put(&[tag]);
    put(&(payload.len() as u32).to_le_bytes());
    put(payload);
}

// ---------------------------------------------------------------- clock values

#[derive(Copy, Clone)]
struct Ts {
    sec: i64,
    nsec: i64,
}

impl Ts {
    fn le(self, o: Ts) -> bool {
        self.sec < o.sec || (self.sec == o.sec && self.nsec <= o.nsec)
    }
    fn nanos_since(self, o: Ts) -> u64 {
        ((self.sec - o.sec) * 1_000_000_000 + (self.nsec - o.nsec)) as u64
    }
    fn of(t: &TimeSpec) -> Ts {
        Ts {
            sec: t.seconds(),
            nsec: t.nanoseconds(),
        }
    }
    /// exact `self + d` (wrapping on absurd values; the comparison then fails, which is the point)
    fn plus(self, d: Duration) -> Ts {
        let mut sec = self.sec.wrapping_add(d.as_secs() as i64);
        let mut nsec = self.nsec + i64::from(d.subsec_nanos());
        if nsec >= 1_000_000_000 {
            nsec -= 1_000_000_000;
            sec = sec.wrapping_add(1);
        }
        Ts { sec, nsec }
    }
}

const CLK_REAL: usize = 0;
const CLK_MONO: usize = 1;

/// the kernel's own reading: always the `syscall` instruction, never the vDSO
fn sys_clock(clk: usize) -> Ts {
    let mut ts = Ts { sec: 0, nsec: 0 };
    unsafe {
        sc::syscall!(CLOCK_GETTIME, clk, core::ptr::addr_of_mut!(ts));
    }
    ts
}

fn instant_ts(i: Instant) -> Ts {
    let t: &TimeSpec = i.as_ref();
    Ts::of(t)
}

fn system_ts(s: SystemTime) -> Ts {
    let d = s.duration_since_unix_time();
    Ts {
        sec: d.as_secs() as i64,
        nsec: i64::from(d.subsec_nanos()),
    }
}

struct Bases {
    m0: MonotonicInstant,
    i0: Instant,
    s0: SystemTime,
}

const N_ENTRIES: u8 = 6;

fn clock_of(entry: u8) -> usize {
    if entry >= 4 {
        CLK_REAL
    } else {
        CLK_MONO
    }
}

#[inline(never)]
fn lib_reading(entry: u8, b: &Bases) -> Option<Ts> {
    match entry {
        0 => Some(instant_ts(MonotonicInstant::now().as_instant())),
        1 => Some(instant_ts(Instant::now())),
        2 => Some(instant_ts(b.m0.as_instant()).plus(b.m0.elapsed())),
        3 => b.i0.elapsed().map(|e| instant_ts(b.i0).plus(e)),
        4 => Some(system_ts(SystemTime::now())),
        _ => b.s0.elapsed().map(|e| system_ts(b.s0).plus(e)),
    }
}

fn section(entry: u8, path: u8, n: u32) {
    let clk = clock_of(entry);
    let bases = Bases {
        m0: MonotonicInstant::now(),
        i0: Instant::now(),
        s0: SystemTime::now(),
    };
    let (mut inside, mut earlier, mut later, mut back, mut none) = (0u32, 0u32, 0u32, 0u32, 0u32);
    let mut first_bad = [0i64; 6];
    let mut have_bad = false;
    let mut before = sys_clock(clk);
    let mut i = 0;
    while i < n {
        let v = lib_reading(entry, &bases);
        let after = sys_clock(clk);
        match v {
            None => none += 1,
            Some(v) => {
                let bad = if !before.le(after) {
                    // the clock itself was stepped backwards between two system calls
                    // (possible for CLOCK_REALTIME only): the triple says nothing
                    back += 1;
                    false
                } else if !before.le(v) {
                    earlier += 1;
                    true
                } else if !v.le(after) {
                    later += 1;
                    true
                } else {
                    inside += 1;
                    false
                };
                if bad && !have_bad {
                    have_bad = true;
                    first_bad = [before.sec, before.nsec, v.sec, v.nsec, after.sec, after.nsec];
                }
            }
        }
        before = after;
        i += 1;
    }
    // informational: time spent in the library calls alone (vDSO vs system call shows here)
    let t0 = sys_clock(CLK_MONO);
    let mut k = 0;
    while k < n {
        let _ = lib_reading(entry, &bases);
        k += 1;
    }
    let t1 = sys_clock(CLK_MONO);
    let mut pl = [0u8; 2 + 6 * 4 + 6 * 8 + 8];
    pl[0] = entry;
    pl[1] = path;
    let mut o = 2;
    for x in [n, inside, earlier, later, back, none] {
        pl[o..o + 4].copy_from_slice(&x.to_le_bytes());
        o += 4;
    }
    for x in first_bad {
        pl[o..o + 8].copy_from_slice(&x.to_le_bytes());
        o += 8;
    }
    pl[o..o + 8].copy_from_slice(&t1.nanos_since(t0).to_le_bytes());
    rec(b'S', &pl);
}

#[no_mangle]
pub fn main() -> i32 {
    let mut ctl = [0u8; 64];
    let mut ctl_len = 0usize;
    loop {
        if ctl_len == ctl.len() {
            break;
        }
        match rusl::unistd::read(STDIN, &mut ctl[ctl_len..]) {
            Ok(0) | Err(_) => break,
            Ok(n) => ctl_len += n,
        }
    }
    let mut n = 1000u32;
    let mut have_sym = false;
    let mut force_fallback = false;
    let mut delta = 0i64;
    if ctl_len >= 17 && &ctl[..4] == b"PCK1" {
        n = u32::from_le_bytes([ctl[4], ctl[5], ctl[6], ctl[7]]);
        have_sym = ctl[8] >= 1;
        force_fallback = ctl[8] == 1;
        delta = i64::from_le_bytes(ctl[9..17].try_into().unwrap_or([0; 8]));
    }
    let anchor = core::ptr::addr_of!(PROBE_ANCHOR) as usize;
    let slot = (anchor as i64).wrapping_add(delta) as usize as *mut u64;
    let orig = if have_sym {
        unsafe { core::ptr::read_volatile(slot) }
    } else {
        0
    };
    let mut v = [0u8; 9];
    v[0] = u8::from(have_sym);
    v[1..9].copy_from_slice(&orig.to_le_bytes());
    rec(b'V', &v);

    let mut e = 0;
    while e < N_ENTRIES {
        section(e, 0, n);
        e += 1;
    }
    if force_fallback && orig != 0 {
        // `Option<extern "C" fn ..>` is one word, `None` is 0
        unsafe { core::ptr::write_volatile(slot, 0) };
        e = 0;
        while e < N_ENTRIES {
            section(e, 1, n);
            e += 1;
        }
        unsafe { core::ptr::write_volatile(slot, orig) };
    }
    rec(b'Z', &[]);
    flush();
    0
}
