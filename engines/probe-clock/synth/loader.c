/* (From the C19 audit's demonstration, extended to static PIE images for /verif/lib/steps_clock.py.)
 * Minimal user-space exec: maps a static ELF (ET_EXEC, or ET_DYN without interpreter at a base the
 * kernel picks), builds a fresh initial stack exactly as the kernel would (argc, argv, envp, auxv)
 * and jumps to its entry point.  stdin/stdout pass through untouched.  The only thing it changes
 * relative to a kernel exec is the value of AT_SYSINFO_EHDR, which points at the image given as
 * argv[2] (or is left at the kernel's own vDSO if argv[2] is "-"). */
#define _GNU_SOURCE
#include <elf.h>
#include <fcntl.h>
#include <stdio.h>
#include <stdlib.h>
#include <string.h>
#include <sys/auxv.h>
#include <sys/mman.h>
#include <sys/stat.h>
#include <unistd.h>

static void die(const char *m) { perror(m); exit(111); }

int main(int argc, char **argv) {
    if (argc < 3) { fprintf(stderr, "usage: loader <static-exe> <vdso-image|->\n"); return 2; }
    int fd = open(argv[1], O_RDONLY); if (fd < 0) die("open exe");
    struct stat st; fstat(fd, &st);
    unsigned char *img = mmap(0, st.st_size, PROT_READ, MAP_PRIVATE, fd, 0); if (img == MAP_FAILED) die("mmap exe");
    Elf64_Ehdr *eh = (Elf64_Ehdr *)img;
    if (eh->e_type != ET_EXEC && eh->e_type != ET_DYN) { fprintf(stderr, "need ET_EXEC or ET_DYN\n"); return 2; }
    Elf64_Phdr *ph = (Elf64_Phdr *)(img + eh->e_phoff);
    unsigned long phdr_addr = 0, base = 0;
    if (eh->e_type == ET_DYN) {
        /* static PIE: reserve the whole span once, the pages are then mapped over the reservation */
        unsigned long lo = ~0UL, hi = 0;
        for (int i = 0; i < eh->e_phnum; i++) {
            if (ph[i].p_type == PT_INTERP) { fprintf(stderr, "image has an interpreter\n"); return 2; }
            if (ph[i].p_type != PT_LOAD) continue;
            if ((ph[i].p_vaddr & ~0xfffUL) < lo) lo = ph[i].p_vaddr & ~0xfffUL;
            if (((ph[i].p_vaddr + ph[i].p_memsz + 0xfff) & ~0xfffUL) > hi) hi = (ph[i].p_vaddr + ph[i].p_memsz + 0xfff) & ~0xfffUL;
        }
        void *r = mmap(0, hi - lo, PROT_NONE, MAP_PRIVATE | MAP_ANONYMOUS, -1, 0); if (r == MAP_FAILED) die("reserve");
        base = (unsigned long)r - lo;
    }
    int fixed = eh->e_type == ET_DYN ? MAP_FIXED : MAP_FIXED_NOREPLACE;
    static unsigned long pages[8192]; static int prots[8192]; int np = 0;
    for (int i = 0; i < eh->e_phnum; i++) {
        if (ph[i].p_type == PT_PHDR) phdr_addr = base + ph[i].p_vaddr;
        if (ph[i].p_type != PT_LOAD) continue;
        if (!phdr_addr && ph[i].p_offset == 0) phdr_addr = base + ph[i].p_vaddr + eh->e_phoff; /* no PT_PHDR: headers sit in the first segment */
        unsigned long start = (base + ph[i].p_vaddr) & ~0xfffUL, end = (base + ph[i].p_vaddr + ph[i].p_memsz + 0xfff) & ~0xfffUL;
        int prot = ((ph[i].p_flags & PF_R) ? PROT_READ : 0) | ((ph[i].p_flags & PF_W) ? PROT_WRITE : 0) | ((ph[i].p_flags & PF_X) ? PROT_EXEC : 0);
        for (unsigned long pg = start; pg < end; pg += 4096) {
            int j; for (j = 0; j < np && pages[j] != pg; j++) ;
            if (j == np) { /* new page: map it zeroed and writable for the copy */
                if (mmap((void *)pg, 4096, PROT_READ | PROT_WRITE, MAP_PRIVATE | MAP_ANONYMOUS | fixed, -1, 0) == MAP_FAILED) die("mmap page");
                pages[np] = pg; prots[np] = 0; np++;
            }
            prots[j] |= prot; /* a page shared by two segments gets the union */
        }
        memcpy((void *)(base + ph[i].p_vaddr), img + ph[i].p_offset, ph[i].p_filesz);
    }
    for (int j = 0; j < np; j++) if (mprotect((void *)pages[j], 4096, prots[j])) die("mprotect");
    unsigned long vdso = getauxval(AT_SYSINFO_EHDR);
    if (strcmp(argv[2], "-") != 0) {
        int vfd = open(argv[2], O_RDONLY); if (vfd < 0) die("open vdso");
        struct stat vs; fstat(vfd, &vs);
        void *v = mmap(0, vs.st_size, PROT_READ | PROT_EXEC, MAP_PRIVATE, vfd, 0); if (v == MAP_FAILED) die("mmap vdso");
        vdso = (unsigned long)v;
    }
    /* new stack */
    size_t ssz = 1 << 20;
    unsigned long *stk = mmap(0, ssz, PROT_READ | PROT_WRITE, MAP_PRIVATE | MAP_ANONYMOUS | MAP_STACK, -1, 0);
    unsigned long *sp = (unsigned long *)((char *)stk + ssz - 4096);
    sp = (unsigned long *)((unsigned long)sp & ~15UL);
    int k = 0;
    sp[k++] = 1;                         /* argc */
    sp[k++] = (unsigned long)argv[1];    /* argv[0] */
    sp[k++] = 0;
    sp[k++] = 0;                         /* envp terminator (empty env) */
    unsigned long aux[][2] = {
        {AT_SYSINFO_EHDR, vdso}, {AT_PAGESZ, 4096}, {AT_PHDR, phdr_addr}, {AT_PHENT, sizeof(Elf64_Phdr)},
        {AT_PHNUM, eh->e_phnum}, {AT_BASE, 0}, {AT_ENTRY, base + eh->e_entry}, {AT_UID, getuid()}, {AT_EUID, geteuid()},
        {AT_GID, getgid()}, {AT_EGID, getegid()}, {AT_SECURE, 0}, {AT_RANDOM, getauxval(AT_RANDOM)},
        {AT_EXECFN, (unsigned long)argv[1]}, {AT_NULL, 0}};
    for (unsigned i = 0; i < sizeof aux / sizeof aux[0]; i++) { sp[k++] = aux[i][0]; sp[k++] = aux[i][1]; }
    fflush(0);
    __asm__ volatile("mov %0, %%rsp\n\txor %%edx, %%edx\n\tjmp *%1" ::"r"(sp), "r"(base + eh->e_entry) : "memory");
    __builtin_unreachable();
}
