"""C19, clock-identity half: which clock does each clock-reading entry point of tiny_std::time read,
on the vDSO path and on the system-call fallback, in a real executable started through tiny-std's `_start`?

The reader functions `get_monotonic_time` / `get_real_time` in tiny-std/src/time.rs exist twice: a
`#[cfg(feature = "vdso")]` version (vDSO function if the start-up code found it, else system call) and
a `#[cfg(not(feature = "vdso"))]` version.  The harness h-time is built without that feature, and a
vDSO call is not a system call, so neither the default build nor the syscall seam sees the first
version.  The probe /verif/engines/probe-clock is built like the repository's runners
(.github/runners.sh: RUSTFLAGS='-C panic=abort -C link-arg=-nostartfiles' [+crt-static ...],
--target x86_64-unknown-linux-gnu, tiny-std feature `executable`) in every link mode and run once per
binary; see its header for the record format.

ENUMERATED (deterministic decision "which clock id"): {dynamic PIE, static, static PIE} [x release in
the thorough tier] x 6 entry points x {vDSO path, fallback with the vDSO pointer forced to None}.
SAMPLED (real time): N readings per cell, each between two clock_gettime system calls.

Judged (statement C19: "successive readings of the monotonic clock never decrease"): every reading of
MonotonicInstant::now / Instant::now / MonotonicInstant::elapsed / Instant::elapsed must lie between the
kernel's CLOCK_MONOTONIC readings before and after it.  The SystemTime entry points are sandwiched by
CLOCK_REALTIME and only recorded (the statement does not cover the wall clock; C07 judges it).

Registry step (kind "py"):
    dict(kind="py", fn="c19_vdso", name="vdso-clock-identity", pkg="probe-clock", bin="probe-clock",
         phase=None, builds=steps_clock.SETUP_BUILDS)
and  PYSTEPS["c19_vdso"] = steps_clock.c19_vdso

Environment:
    VERIF_CLOCK_REPO=<dir>   build the probe against <dir>/{tiny-std,tiny-start,rusl} instead of /repo
                             (crate copy + target dirs under <dir>/.probe-clock/).
Stand-alone:  python3 /verif/lib/steps_clock.py [quick|thorough] [--json FILE]
"""
import concurrent.futures
import json
import os
import struct
import subprocess
import sys
import time

ROOT = os.path.dirname(os.path.dirname(os.path.abspath(__file__)))
PROBE_SRC = os.path.join(ROOT, "engines", "probe-clock")
# inside /verif/target so that lib/seedtest.py's private bind mount of target/ covers it
TARGET_ROOT = os.path.join(ROOT, "target", "probe-clock")
TRIPLE = "x86_64-unknown-linux-gnu"
BASE_FLAGS = "-C panic=abort -C link-arg=-nostartfiles"
MODES = [
    ("dyn", ""),
    ("static", "-C target-feature=+crt-static -C relocation-model=static"),
    ("staticpie", "-C target-feature=+crt-static -C relocation-model=pie"),
]
QUICK_CONFIGS = [(m, "debug") for m, _ in MODES]
THOROUGH_CONFIGS = QUICK_CONFIGS + [(m, "release") for m, _ in MODES]
N_QUICK = 10_000
N_THOROUGH = 100_000
RUN_TIMEOUT = 120.0

ENTRIES = ["MonotonicInstant::now", "Instant::now", "MonotonicInstant::elapsed", "Instant::elapsed",
           "SystemTime::now", "SystemTime::elapsed"]
JUDGED = 4  # entries 0..3 read the monotonic clock
SYM_ANCHOR = "PROBE_ANCHOR"
SYM_VDSO = "tiny_std3elf4vdso19VDSO_CLOCK_GET_TIME"


def _rustflags(mode):
    return (BASE_FLAGS + " " + dict(MODES)[mode]).strip()


SETUP_BUILDS = [
    dict(pkg="probe-clock", bin="probe-clock", cwd=PROBE_SRC, target_dir=os.path.join(TARGET_ROOT, m),
         profile="dev", build_env={"RUSTFLAGS": _rustflags(m), "CARGO_BUILD_TARGET": TRIPLE})
    for m, _ in MODES
]


def _machinery(msg):
    print(f"MACHINERY-FAILURE: {msg}", flush=True)
    sys.exit(2)


# --------------------------------------------------------------------------- building

def _crate_and_targets():
    alt = os.environ.get("VERIF_CLOCK_REPO")
    if not alt:
        return PROBE_SRC, TARGET_ROOT, "/repo"
    alt = os.path.abspath(alt)
    for sub in ("tiny-std", "tiny-start", "rusl"):
        if not os.path.isdir(os.path.join(alt, sub)):
            _machinery(f"VERIF_CLOCK_REPO={alt} lacks {sub}/")
    base = os.path.join(alt, ".probe-clock")
    crate = os.path.join(base, "crate")
    os.makedirs(os.path.join(crate, "src"), exist_ok=True)
    manifest = open(os.path.join(PROBE_SRC, "Cargo.toml")).read().replace('"/repo/', '"' + alt + "/")
    for rel, data in (("Cargo.toml", manifest),
                      ("Cargo.lock", open(os.path.join(PROBE_SRC, "Cargo.lock")).read()),
                      ("src/main.rs", open(os.path.join(PROBE_SRC, "src", "main.rs")).read())):
        path = os.path.join(crate, rel)
        if not os.path.exists(path) or open(path).read() != data:
            open(path, "w").write(data)
    return crate, os.path.join(base, "target"), alt


def _bin_path(target_root, mode, profile):
    return os.path.join(target_root, mode, TRIPLE, profile, "probe-clock")


def _cargo_build(crate, target_root, mode, profile, env):
    e = dict(env)
    for k in ("CARGO_ENCODED_RUSTFLAGS", "CARGO_BUILD_RUSTFLAGS", "RUSTC_WRAPPER"):
        e.pop(k, None)
    e["CARGO_NET_OFFLINE"] = "true"
    e["RUSTFLAGS"] = _rustflags(mode)
    e["CARGO_BUILD_TARGET"] = TRIPLE
    e["CARGO_TARGET_DIR"] = os.path.join(target_root, mode)
    e.setdefault("CARGO_TERM_COLOR", "never")
    cmd = ["cargo", "build", "--offline", "-p", "probe-clock", "--bin", "probe-clock"]
    if profile == "release":
        cmd += ["--profile", "release"]
    t0 = time.time()
    p = subprocess.run(cmd, cwd=crate, env=e, stdout=subprocess.PIPE, stderr=subprocess.STDOUT, text=True)
    path = _bin_path(target_root, mode, profile)
    ok = p.returncode == 0 and os.path.exists(path)
    tail = ""
    if not ok:
        lines = [l for l in p.stdout.splitlines() if l.startswith("error") or "undefined" in l]
        tail = " | ".join((lines or p.stdout.splitlines()[-6:])[:6])[:600]
    return dict(mode=mode, profile=profile, ok=ok, path=path, secs=round(time.time() - t0, 1), err=tail)


def builds(env, configs):
    crate, target_root, _ = _crate_and_targets()
    out = {}
    # debug and release of one mode share a target directory (cargo locks it): one worker per mode
    by_mode = {}
    for m, p in configs:
        by_mode.setdefault(m, []).append(p)

    def mode_builds(m):
        return [_cargo_build(crate, target_root, m, p, env) for p in by_mode[m]]
    with concurrent.futures.ThreadPoolExecutor(max_workers=len(by_mode)) as ex:
        for rs in ex.map(mode_builds, list(by_mode)):
            for r in rs:
                out[f"{r['mode']}-{r['profile']}"] = r
    return out


# --------------------------------------------------------------------------- ELF symbols

def _elf_symbols(path, wanted):
    """{substring: (value, size)} for the first .symtab symbol whose name contains the substring."""
    data = open(path, "rb").read()
    if data[:4] != b"\x7fELF" or data[4] != 2:
        return {}
    e_shoff, = struct.unpack_from("<Q", data, 0x28)
    e_shentsize, e_shnum = struct.unpack_from("<HH", data, 0x3A)
    secs = [struct.unpack_from("<IIQQQQIIQQ", data, e_shoff + i * e_shentsize) for i in range(e_shnum)]
    found = {}
    for s in secs:
        if s[1] != 2:  # SHT_SYMTAB
            continue
        stro = secs[s[6]][4]
        for off in range(s[4], s[4] + s[5], 24):
            st_name, _info, _other, _shndx, st_value, st_size = struct.unpack_from("<IBBHQQ", data, off)
            end = data.index(b"\0", stro + st_name)
            name = data[stro + st_name:end].decode("latin-1")
            for w in wanted:
                if w not in found and w in name:
                    found[w] = (st_value, st_size)
    return found


def _vdso_slot_delta(path):
    syms = _elf_symbols(path, [SYM_ANCHOR, SYM_VDSO])
    if SYM_ANCHOR in syms and SYM_VDSO in syms and syms[SYM_VDSO][1] == 8:
        return syms[SYM_VDSO][0] - syms[SYM_ANCHOR][0]
    return None


# --------------------------------------------------------------------------- one run

def parse_records(out):
    recs, o = [], 0
    while o < len(out):
        if o + 5 > len(out):
            return recs, False
        tag = out[o:o + 1]
        ln, = struct.unpack_from("<I", out, o + 1)
        if o + 5 + ln > len(out):
            return recs, False
        recs.append((tag, out[o + 5:o + 5 + ln]))
        o += 5 + ln
    return recs, True


def run_probe(cfg, path, n):
    """One exec of one binary.  Returns dict(cfg, died=None|text, ptr, have_sym, cells=[...])."""
    delta = _vdso_slot_delta(path)
    ctl = b"PCK1" + struct.pack("<IBq", n, 1 if delta is not None else 0, delta or 0)
    res = dict(cfg=cfg, died=None, have_sym=delta is not None, ptr=None, cells=[])
    try:
        p = subprocess.run([path], input=ctl, stdout=subprocess.PIPE, stderr=subprocess.PIPE, timeout=RUN_TIMEOUT,
                           env={"PATH": "/usr/bin:/bin"})
    except subprocess.TimeoutExpired:
        res["died"] = f"no exit within {RUN_TIMEOUT}s"
        return res
    recs, whole = parse_records(p.stdout)
    if p.returncode != 0 or not whole or not recs or recs[-1][0] != b"Z":
        res["died"] = (f"exit status {p.returncode}, {len(recs)} records, output {'complete' if whole else 'cut short'}; "
                       f"stderr={p.stderr[:200].decode('latin-1')!r}")
    for tag, pl in recs:
        if tag == b"V":
            res["ptr"] = struct.unpack_from("<Q", pl, 1)[0] if pl[0] == 1 else None
        elif tag == b"S":
            entry, path_id = pl[0], pl[1]
            nn, inside, earlier, later, back, none = struct.unpack_from("<6I", pl, 2)
            tri = struct.unpack_from("<6q", pl, 26)
            lib_ns, = struct.unpack_from("<Q", pl, 74)
            res["cells"].append(dict(entry=entry, path=path_id, n=nn, inside=inside, earlier=earlier, later=later, back=back,
                                     none=none, tri=tri, lib_ns=lib_ns))
    return res


def path_name(res, path_id):
    """what the reader functions did in this cell"""
    if path_id == 1:
        return "syscall-fallback"
    if res["ptr"] is None:
        return "as-started"
    return "vdso" if res["ptr"] else "syscall-fallback"


def _fmt_tri(t):
    return f"kernel before={t[0]}.{t[1]:09d} library={t[2]}.{t[3]:09d} kernel after={t[4]}.{t[5]:09d}"


RULE = ("Clock identity of tiny_std::time in real executables (tiny-std `_start`, feature `executable` => `vdso`). ENUMERATED: "
        "link modes {dynamic PIE, static, static PIE} (debug; thorough adds release) x the six clock-reading entry points "
        "(MonotonicInstant::now, Instant::now, MonotonicInstant::elapsed, Instant::elapsed, SystemTime::now, SystemTime::elapsed) x "
        "{vDSO function as located at start-up, vDSO function pointer forced to None = system-call fallback of the same build}. "
        "SAMPLED (real time cannot be enumerated): in every cell N readings, each taken between two clock_gettime SYSTEM CALLS on the clock the entry point "
        "must read; elapsed() is turned into a reading as base+elapsed with the base a now() of the same type on the same path. A case is one reading; "
        "it is non-trivial when the kernel clock did not itself step back across it. Judged: a reading of one of the four monotonic entry points that is "
        "earlier than the kernel's CLOCK_MONOTONIC reading before it or later than the one after it is a decrease between successive readings of the monotonic clock; "
        "Instant::elapsed() == None for an earlier reading likewise. The SystemTime cells (CLOCK_REALTIME) are recorded, not judged.")


def report_from(results, n, caps, notes, tier):
    violations, outcomes, samples = {}, {}, []
    evaluations = nontrivial = 0

    def viol(key, desc, replay):
        v = violations.get(key)
        if v is None:
            violations[key] = dict(key=key, count=1, desc=desc, replay=replay)
        else:
            v["count"] += 1

    for res in results:
        cfg = res["cfg"]
        if res["died"]:
            outcomes[f"{cfg}/run:died"] = 1
            viol("C19:vdso:probe-died", f"[{cfg}] the probe did not complete: {res['died']} ({len(res['cells'])} cells reported before)",
                 dict(cfg=cfg, n=n))
        else:
            outcomes[f"{cfg}/run:complete"] = 1
        if res["ptr"] is None:
            outcomes[f"{cfg}/vdso-pointer:unknown(no symbol)"] = 1
        else:
            outcomes[f"{cfg}/vdso-pointer:{'found-at-startup' if res['ptr'] else 'none-at-startup'}"] = 1
        for c in res["cells"]:
            pname = path_name(res, c["path"])
            ename = ENTRIES[c["entry"]]
            evaluations += c["n"]
            nontrivial += c["n"] - c["back"]
            cell = f"{cfg}/{pname}/{ename}"
            for k in ("inside", "earlier", "later", "back", "none"):
                if c[k]:
                    label = {"inside": "inside-kernel-sandwich", "earlier": "EARLIER-than-kernel-reading-before", "later": "LATER-than-kernel-reading-after",
                             "back": "kernel-clock-stepped-back(not judged)", "none": "elapsed-returned-None"}[k]
                    outcomes[f"{cell}:{label}"] = c[k]
            replay = dict(cfg=cfg, entry=ename, path=pname, n=n)
            if c["entry"] < JUDGED:
                if c["earlier"] or c["later"]:
                    viol(f"C19:{pname}:{ename}:reading-outside-kernel-sandwich",
                         f"[{cfg}, {pname} path] {c['earlier'] + c['later']} of {c['n']} readings of {ename} lie outside the two surrounding CLOCK_MONOTONIC "
                         f"system calls ({c['earlier']} earlier than the one before, {c['later']} later than the one after): first {_fmt_tri(c['tri'])}; "
                         f"the kernel reading that follows such a library reading is a DECREASE of the monotonic clock as the program sees it", replay)
                if c["none"]:
                    viol(f"C19:{pname}:{ename}:none-for-past-reading",
                         f"[{cfg}, {pname} path] {ename}() of a reading taken earlier on the same path returned None {c['none']} of {c['n']} times", replay)
            if len(samples) < 8 and cfg.endswith("debug") and c["entry"] in (0, 1, 3):
                samples.append(dict(cfg=cfg, entry=ename, path=pname, readings=c["n"], inside=c["inside"], earlier=c["earlier"], later=c["later"],
                                    ns_per_library_call=round(c["lib_ns"] / max(1, c["n"]), 1)))
    cells = sum(len(r["cells"]) for r in results)
    return dict(
        evaluations=evaluations, distinct_nontrivial=nontrivial, samples=samples, violations=list(violations.values()),
        outcomes=outcomes, caps_hit=caps, notes=notes, rule=RULE,
        bounds=dict(tier=tier, readings_per_cell=n, cells=cells, configurations=[r["cfg"] for r in results], entry_points=ENTRIES,
                    paths=["vdso", "syscall-fallback(pointer forced to None)"]),
        # the cell grid is enumerated completely, the readings inside a cell are a sample
        exhaustive=False,
    )


def c19_vdso(tier="quick", seed=0, out=None, step=None, build=None, bin_path=None, env=None, replay=None):
    env = dict(os.environ if env is None else env)
    if replay is not None:
        return _replay(replay, env)
    t0 = time.time()
    configs = THOROUGH_CONFIGS if tier == "thorough" else QUICK_CONFIGS
    n = N_THOROUGH if tier == "thorough" else N_QUICK
    crate, target_root, repo = _crate_and_targets()
    built = builds(env, configs)
    t_build = time.time() - t0
    caps, notes, usable = [], [], []
    for m, p in configs:
        b = built[f"{m}-{p}"]
        if b["ok"]:
            usable.append((f"{m}-{p}", b["path"]))
        else:
            caps.append(f"configuration {m}-{p} does not build from {repo} and was left out: {b['err']}")
    if not usable:
        _machinery("the clock probe builds in no configuration: " + "; ".join(caps)[:1500])
    results = [run_probe(cfg, path, n) for cfg, path in usable]
    for r in results:
        if not r["have_sym"]:
            caps.append(f"{r['cfg']}: tiny-std's private VDSO_CLOCK_GET_TIME not found in the symbol table: fallback path not forced, path of the as-started cells unknown")
        elif r["ptr"] == 0:
            caps.append(f"{r['cfg']}: start-up found no vDSO clock function: only the system-call fallback ran (vDSO cells vacuous)")
    notes.append(f"probe built from {repo}; build {t_build:.1f}s, run {time.time() - t0 - t_build:.1f}s; configurations: {', '.join(c for c, _ in usable)}")
    notes.append("SAMPLED: the readings inside each (link mode, entry point, path) cell are a sample of real time; the cell grid itself is enumerated completely")
    notes.append("the `#[cfg(not(feature = \"vdso\"))]` readers are sandwiched the same way in h-time phase `clock` (harness build, no vdso feature)")
    notes.append("not covered: a kernel started without a vDSO (AT_SYSINFO_EHDR absent) cannot be produced cheaply; the same branch is entered by forcing the function pointer to None")
    rep = report_from(results, n, caps, notes, tier)
    rep["bounds"].update(build_s=round(t_build, 1), run_s=round(time.time() - t0 - t_build, 1))
    if out:
        json.dump(rep, open(out, "w"), indent=1)
    return rep


def _replay(d, env):
    rp = d.get("replay", d)
    cfg = rp["cfg"]
    mode, profile = cfg.rsplit("-", 1)
    _, _, repo = _crate_and_targets()
    b = builds(env, [(mode, profile)])[cfg]
    if not b["ok"]:
        _machinery(f"{cfg} does not build: {b['err']}")
    res = run_probe(cfg, b["path"], int(rp.get("n", N_QUICK)))
    rep = report_from([res], int(rp.get("n", N_QUICK)), [], [], "quick")
    print(f"replay C19 clock identity {cfg}: binary {b['path']} (built from {repo}); vDSO pointer at start-up: "
          f"{'unknown' if res['ptr'] is None else hex(res['ptr'])}")
    for c in res["cells"]:
        print(f"  {path_name(res, c['path']):17s} {ENTRIES[c['entry']]:26s} n={c['n']} inside={c['inside']} earlier={c['earlier']} later={c['later']} "
              f"none={c['none']} kernel-stepped-back={c['back']}")
    want = d.get("key")
    hits = [v for v in rep["violations"] if want is None or v["key"] == want]
    for v in hits:
        print(f"  VIOLATED {v['key']}: {v['desc']}")
    if not hits:
        print("  result: every judged reading lay inside its kernel sandwich (no violation)")
    return 1 if hits else 0


def main(argv):
    tier, js = "quick", None
    i = 0
    while i < len(argv):
        if argv[i] in ("quick", "thorough"):
            tier = argv[i]
        elif argv[i] == "--json":
            js = argv[i + 1]
            i += 1
        i += 1
    t0 = time.time()
    rep = c19_vdso(tier=tier, out=js)
    print(f"C19 vdso-clock-identity [{tier}] readings={rep['evaluations']} cells={rep['bounds']['cells']} violations={len(rep['violations'])} "
          f"outcomes={len(rep['outcomes'])} wall={time.time() - t0:.1f}s (build {rep['bounds']['build_s']}s, run {rep['bounds']['run_s']}s)")
    for v in rep["violations"]:
        print(f"  {v['key']} x{v['count']}: {v['desc'][:500]}")
    for c in rep["caps_hit"]:
        print("  cap:", c[:300])
    for s in rep["samples"]:
        print("  sample:", s)
    return 1 if rep["violations"] else 0


if __name__ == "__main__":
    sys.exit(main(sys.argv[1:]))
