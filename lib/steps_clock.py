"""C19, clock-identity half: which clock does each clock-reading entry point of tiny_std::time read,
on the vDSO path and on the system-call fallback, in a real executable started through tiny-std's `_start`?

The reader functions `get_monotonic_time` / `get_real_time` in tiny-std/src/time.rs exist twice: a
`#[cfg(feature = "vdso")]` version (vDSO function if the start-up code found it, else system call) and
a `#[cfg(not(feature = "vdso"))]` version.  The harness h-time is built without that feature, and a
vDSO call is not a system call, so neither the default build nor the syscall seam sees the first
version.  The probe /verif/engines/probe-clock is built like the repository's runners
(.github/runners.sh: RUSTFLAGS='-C panic=abort -C link-arg=-nostartfiles' [+crt-static ...],
--target x86_64-unknown-linux-gnu, tiny-std feature `executable`) in every link mode and run once per
binary; see its header for the record format.

ENUMERATED (deterministic decision "which clock id"): {dynamic PIE, static, static PIE} [x release in
the thorough tier] x 6 entry points x {vDSO path, fallback with the vDSO pointer forced to None}.
SAMPLED (real time): N readings per cell, each between two clock_gettime system calls.

START-STATE dimension (time namespace): on a machine that was never suspended, in the initial time
namespace, CLOCK_MONOTONIC, CLOCK_BOOTTIME (and nearly MONOTONIC_RAW / MONOTONIC_COARSE) show the same
value, so a reader that asks for the wrong one of them is invisible to the sandwich.  Every real-vDSO cell is
therefore run a second time under `unshare -T --monotonic 3000 --boottime 7000 --fork`: REALTIME, the
MONOTONIC family and BOOTTIME then differ pairwise by thousands of seconds, for the vDSO as for the system
call.  Needs root and a kernel with time namespaces; when it is not available the cells are reported as
not run (note + cap), never as a violation.  The synthetic images decide the same class without a namespace:
their clock_gettime adds 1000 s x clock id to the answer for every id other than REALTIME and MONOTONIC.

SYNTHETIC-IMAGE dimension (the kernel's own vDSO is ONE image; whether the lookup code calls the address
the symbol table states depends on where the function sits): the static and static-PIE debug binaries are
also started through engines/probe-clock/synth/loader.c -- a user-space exec that differs from the kernel's
only in the value of AT_SYSINFO_EHDR -- against vDSO-shaped images built from synth/fakevdso.S/.lds with
__vdso_clock_gettime (the real system call) at 0x1000 / 0x1010 / 0x1020 / 0x1030 and a .text whose
sh_addralign is 16 / 32 / 64, every neighbouring 16-byte slot holding a decoy that answers
{0x7dec00kk s, 0 ns}; plus one run per binary through the loader with the kernel's own image (control:
the loader is transparent).  Same oracle, same keys.  Loader and images are cached under
/verif/target/probe-clock/synth (they do not depend on the repository).

Judged (statement C19: "successive readings of the monotonic clock never decrease"): every reading of
MonotonicInstant::now / Instant::now / MonotonicInstant::elapsed / Instant::elapsed must lie between the
kernel's CLOCK_MONOTONIC readings before and after it.  The SystemTime entry points are sandwiched by
CLOCK_REALTIME and only recorded (the statement does not cover the wall clock; C07 judges it).

Registry step (kind "py"):
    dict(kind="py", fn="c19_vdso", name="vdso-clock-identity", pkg="probe-clock", bin="probe-clock",
         phase=None, builds=steps_clock.SETUP_BUILDS)
and  PYSTEPS["c19_vdso"] = steps_clock.c19_vdso

Environment:
    VERIF_CLOCK_REPO=<dir>   build the probe against <dir>/{tiny-std,tiny-start,rusl} instead of /repo
                             (crate copy + target dirs under <dir>/.probe-clock/).
Stand-alone:  python3 /verif/lib/steps_clock.py [quick|thorough] [--json FILE]
"""
import concurrent.futures
import json
import os
import struct
import subprocess
import sys
import time

ROOT = os.path.dirname(os.path.dirname(os.path.abspath(__file__)))
PROBE_SRC = os.path.join(ROOT, "engines", "probe-clock")
# inside /verif/target so that lib/seedtest.py's private bind mount of target/ covers it
TARGET_ROOT = os.path.join(ROOT, "target", "probe-clock")
TRIPLE = "x86_64-unknown-linux-gnu"
BASE_FLAGS = "-C panic=abort -C link-arg=-nostartfiles"
MODES = [
    ("dyn", ""),
    ("static", "-C target-feature=+crt-static -C relocation-model=static"),
    ("staticpie", "-C target-feature=+crt-static -C relocation-model=pie"),
]
QUICK_CONFIGS = [(m, "debug") for m, _ in MODES]
THOROUGH_CONFIGS = QUICK_CONFIGS + [(m, "release") for m, _ in MODES]
N_QUICK = 10_000
N_THOROUGH = 100_000
N_SYNTH_QUICK = 2_000
N_SYNTH_THOROUGH = 20_000
TIMENS_MONO, TIMENS_BOOT = 3000, 7000
TIMENS_PREFIX = ["unshare", "-T", "--monotonic", str(TIMENS_MONO), "--boottime", str(TIMENS_BOOT), "--fork"]
TIMENS_TAG = f"@timens(monotonic+{TIMENS_MONO}s,boottime+{TIMENS_BOOT}s)"
SYNTH_SRC = os.path.join(PROBE_SRC, "synth")
SYNTH_DIR = os.path.join(TARGET_ROOT, "synth")
SYNTH_TEXT_START = 0xFC0          # fakevdso.lds
SYNTH_SLOTS = [4, 5, 6, 7]        # 0x1000, 0x1010, 0x1020, 0x1030
SYNTH_ALIGNS = [16, 32, 64]
SYNTH_MODES = ["static", "staticpie"]
SYNTH_LDFLAGS = ["-shared", "-nostdlib", "-Wl,-soname=linux-vdso.so.1", "-Wl,--hash-style=both", "-Wl,-z,max-page-size=4096",
                 "-Wl,--build-id=none"]
RUN_TIMEOUT = 120.0

ENTRIES = ["MonotonicInstant::now", "Instant::now", "MonotonicInstant::elapsed", "Instant::elapsed",
           "SystemTime::now", "SystemTime::elapsed"]
JUDGED = 4  # entries 0..3 read the monotonic clock
SYM_ANCHOR = "PROBE_ANCHOR"
SYM_VDSO = "tiny_std3elf4vdso19VDSO_CLOCK_GET_TIME"


def _rustflags(mode):
    return (BASE_FLAGS + " " + dict(MODES)[mode]).strip()


SETUP_BUILDS = [
    dict(pkg="probe-clock", bin="probe-clock", cwd=PROBE_SRC, target_dir=os.path.join(TARGET_ROOT, m),
         profile="dev", build_env={"RUSTFLAGS": _rustflags(m), "CARGO_BUILD_TARGET": TRIPLE})
    for m, _ in MODES
]


def _machinery(msg):
    print(f"MACHINERY-FAILURE: {msg}", flush=True)
    sys.exit(2)


# --------------------------------------------------------------------------- building

def _crate_and_targets():
    alt = os.environ.get("VERIF_CLOCK_REPO")
    if not alt:
        return PROBE_SRC, TARGET_ROOT, "/repo"
    alt = os.path.abspath(alt)
    for sub in ("tiny-std", "tiny-start", "rusl"):
        if not os.path.isdir(os.path.join(alt, sub)):
            _machinery(f"VERIF_CLOCK_REPO={alt} lacks {sub}/")
    base = os.path.join(alt, ".probe-clock")
    crate = os.path.join(base, "crate")
    os.makedirs(os.path.join(crate, "src"), exist_ok=True)
    manifest = open(os.path.join(PROBE_SRC, "Cargo.toml")).read().replace('"/repo/', '"' + alt + "/")
    for rel, data in (("Cargo.toml", manifest),
                      ("Cargo.lock", open(os.path.join(PROBE_SRC, "Cargo.lock")).read()),
                      ("src/main.rs", open(os.path.join(PROBE_SRC, "src", "main.rs")).read())):
        path = os.path.join(crate, rel)
        if not os.path.exists(path) or open(path).read() != data:
            open(path, "w").write(data)
    return crate, os.path.join(base, "target"), alt


def _bin_path(target_root, mode, profile):
    return os.path.join(target_root, mode, TRIPLE, profile, "probe-clock")


def _cargo_build(crate, target_root, mode, profile, env):
    e = dict(env)
    for k in ("CARGO_ENCODED_RUSTFLAGS", "CARGO_BUILD_RUSTFLAGS", "RUSTC_WRAPPER"):
        e.pop(k, None)
    e["CARGO_NET_OFFLINE"] = "true"
    e["RUSTFLAGS"] = _rustflags(mode)
    e["CARGO_BUILD_TARGET"] = TRIPLE
    e["CARGO_TARGET_DIR"] = os.path.join(target_root, mode)
    e.setdefault("CARGO_TERM_COLOR", "never")
    cmd = ["cargo", "build", "--offline", "-p", "probe-clock", "--bin", "probe-clock"]
    if profile == "release":
        cmd += ["--profile", "release"]
    t0 = time.time()
    p = subprocess.run(cmd, cwd=crate, env=e, stdout=subprocess.PIPE, stderr=subprocess.STDOUT, text=True)
    path = _bin_path(target_root, mode, profile)
    ok = p.returncode == 0 and os.path.exists(path)
    tail = ""
    if not ok:
        lines = [l for l in p.stdout.splitlines() if l.startswith("error") or "undefined" in l]
        tail = " | ".join((lines or p.stdout.splitlines()[-6:])[:6])[:600]
    return dict(mode=mode, profile=profile, ok=ok, path=path, secs=round(time.time() - t0, 1), err=tail)


def builds(env, configs):
    crate, target_root, _ = _crate_and_targets()
    out = {}
    # debug and release of one mode share a target directory (cargo locks it): one worker per mode
    by_mode = {}
    for m, p in configs:
        by_mode.setdefault(m, []).append(p)

    def mode_builds(m):
        return [_cargo_build(crate, target_root, m, p, env) for p in by_mode[m]]
    with concurrent.futures.ThreadPoolExecutor(max_workers=len(by_mode)) as ex:
        for rs in ex.map(mode_builds, list(by_mode)):
            for r in rs:
                out[f"{r['mode']}-{r['profile']}"] = r
    return out


# --------------------------------------------------------------------------- ELF symbols

def _elf_symbols(path, wanted):
    """{substring: (value, size)} for the first .symtab symbol whose name contains the substring."""
    data = open(path, "rb").read()
    if data[:4] != b"\x7fELF" or data[4] != 2:
        return {}
    e_shoff, = struct.unpack_from("<Q", data, 0x28)
    e_shentsize, e_shnum = struct.unpack_from("<HH", data, 0x3A)
    secs = [struct.unpack_from("<IIQQQQIIQQ", data, e_shoff + i * e_shentsize) for i in range(e_shnum)]
    found = {}
    for s in secs:
        if s[1] != 2:  # SHT_SYMTAB
            continue
        stro = secs[s[6]][4]
        for off in range(s[4], s[4] + s[5], 24):
            st_name, _info, _other, _shndx, st_value, st_size = struct.unpack_from("<IBBHQQ", data, off)
            end = data.index(b"\0", stro + st_name)
            name = data[stro + st_name:end].decode("latin-1")
            for w in wanted:
                if w not in found and w in name:
                    found[w] = (st_value, st_size)
    return found


def _vdso_slot_delta(path):
    syms = _elf_symbols(path, [SYM_ANCHOR, SYM_VDSO])
    if SYM_ANCHOR in syms and SYM_VDSO in syms and syms[SYM_VDSO][1] == 8:
        return syms[SYM_VDSO][0] - syms[SYM_ANCHOR][0]
    return None


# --------------------------------------------------------------------------- synthetic vDSO images

def _elf_facts(path):
    """(st_value of __vdso_clock_gettime in .dynsym, sh_addralign of .text) of a vDSO-shaped image"""
    data = open(path, "rb").read()
    e_shoff, = struct.unpack_from("<Q", data, 0x28)
    e_shentsize, e_shnum, e_shstrndx = struct.unpack_from("<HHH", data, 0x3A)
    secs = [struct.unpack_from("<IIQQQQIIQQ", data, e_shoff + i * e_shentsize) for i in range(e_shnum)]
    shstr = secs[e_shstrndx][4]
    value = align = None
    for s_ in secs:
        name = data[shstr + s_[0]:data.index(b"\0", shstr + s_[0])]
        if name == b".text":
            align = s_[8]
        if s_[1] == 11:  # SHT_DYNSYM
            stro = secs[s_[6]][4]
            for off in range(s_[4], s_[4] + s_[5], 24):
                st_name, _i, _o, _x, st_value, _sz = struct.unpack_from("<IBBHQQ", data, off)
                if data[stro + st_name:data.index(b"\0", stro + st_name)] == b"__vdso_clock_gettime":
                    value = st_value
    return value, align


def synth_name(slot, align):
    return f"synthetic-vdso(clock_gettime@{SYNTH_TEXT_START + 16 * slot:#x},.text-align={align})"


def synth_build():
    """Loader + the 12 images, cached under SYNTH_DIR keyed by a hash of their sources.  Returns
    (loader path, [(slot, align, image path)]) or a string saying why it could not be built."""
    import hashlib
    srcs = ["loader.c", "fakevdso.S", "fakevdso.lds"]
    h = hashlib.sha256()
    for f in srcs:
        h.update(open(os.path.join(SYNTH_SRC, f), "rb").read())
    h.update(repr((SYNTH_LDFLAGS, SYNTH_SLOTS, SYNTH_ALIGNS)).encode())
    stamp = os.path.join(SYNTH_DIR, "stamp")
    loader = os.path.join(SYNTH_DIR, "loader")
    images = [(k, a, os.path.join(SYNTH_DIR, f"vdso-{k}-{a}.so")) for a in SYNTH_ALIGNS for k in SYNTH_SLOTS]
    fresh = (os.path.exists(stamp) and open(stamp).read() == h.hexdigest() and os.path.exists(loader)
             and all(os.path.exists(p) for _, _, p in images))
    if not fresh:
        os.makedirs(SYNTH_DIR, exist_ok=True)
        if os.path.exists(stamp):
            os.remove(stamp)

        def sh(cmd):
            p = subprocess.run(cmd, stdout=subprocess.PIPE, stderr=subprocess.STDOUT, text=True)
            if p.returncode != 0:
                raise RuntimeError(" ".join(cmd[:3]) + " ...: " + p.stdout[-400:])

        def one(job):
            k, a, out = job
            obj = out[:-3] + ".o"
            sh(["gcc", "-c", f"-DGETTIME_SLOT={k}", f"-DTEXT_ALIGN={a}", os.path.join(SYNTH_SRC, "fakevdso.S"), "-o", obj])
            sh(["gcc"] + SYNTH_LDFLAGS + ["-Wl,-T," + os.path.join(SYNTH_SRC, "fakevdso.lds"), "-o", out, obj])
            os.remove(obj)
        try:
            sh(["gcc", "-O1", "-o", loader, os.path.join(SYNTH_SRC, "loader.c")])
            with concurrent.futures.ThreadPoolExecutor(max_workers=6) as ex:
                list(ex.map(one, images))
        except (RuntimeError, OSError) as e:
            return f"synthetic vDSO images / loader do not build: {e}"
    for k, a, p in images:
        value, align = _elf_facts(p)
        if value != SYNTH_TEXT_START + 16 * k or align != a:
            return (f"{p}: built image has __vdso_clock_gettime at {value} and .text sh_addralign {align}, "
                    f"wanted {SYNTH_TEXT_START + 16 * k:#x} and {a}")
    if not fresh:
        open(stamp, "w").write(h.hexdigest())
    return loader, images


# --------------------------------------------------------------------------- one run

def parse_records(out):
    recs, o = [], 0
    while o < len(out):
        if o + 5 > len(out):
            return recs, False
        tag = out[o:o + 1]
        ln, = struct.unpack_from("<I", out, o + 1)
        if o + 5 + ln > len(out):
            return recs, False
        recs.append((tag, out[o + 5:o + 5 + ln]))
        o += 5 + ln
    return recs, True


def timens_available():
    """None when `unshare -T` gives the offsets asked for, else a reason."""
    code = "import time;print(time.clock_gettime(1),time.clock_gettime(7))"
    try:
        h1, h7 = time.clock_gettime(1), time.clock_gettime(7)
        p = subprocess.run(TIMENS_PREFIX + [sys.executable, "-c", code], stdout=subprocess.PIPE, stderr=subprocess.PIPE, text=True, timeout=20)
        if p.returncode != 0:
            return f"`{' '.join(TIMENS_PREFIX)}` failed (status {p.returncode}): {p.stderr.strip()[:160]}"
        n1, n7 = (float(x) for x in p.stdout.split())
    except (OSError, ValueError, subprocess.TimeoutExpired) as e:
        return f"`{' '.join(TIMENS_PREFIX)}` not usable: {e}"
    if abs(n1 - h1 - TIMENS_MONO) > 5 or abs(n7 - h7 - TIMENS_BOOT) > 5:
        return f"time namespace offsets not in effect (monotonic {n1 - h1:+.1f}s, boottime {n7 - h7:+.1f}s)"
    return None


def run_probe(cfg, path, n, via=None, timens=False):
    """One exec of one binary.  `via` = None (kernel exec) or dict(loader=, image=path|"-", name=, slot=, align=)
    (user-space exec through the loader; only the as-started path is run).
    Returns dict(cfg, image, died=None|text, ptr, have_sym, cells=[...])."""
    delta = _vdso_slot_delta(path)
    have = 0 if delta is None else (1 if via is None else 2)
    ctl = b"PCK1" + struct.pack("<IBq", n, have, delta or 0)
    res = dict(cfg=cfg, image=(via["name"] if via else "kernel-vdso"), via=via, timens=timens, died=None, have_sym=delta is not None, ptr=None, cells=[])
    argv = [path] if via is None else [via["loader"], path, via["image"]]
    if timens:
        argv = TIMENS_PREFIX + argv
    try:
        p = subprocess.run(argv, input=ctl, stdout=subprocess.PIPE, stderr=subprocess.PIPE, timeout=RUN_TIMEOUT,
                           env={"PATH": "/usr/bin:/bin"})
    except subprocess.TimeoutExpired:
        res["died"] = f"no exit within {RUN_TIMEOUT}s"
        return res
    recs, whole = parse_records(p.stdout)
    if p.returncode != 0 or not whole or not recs or recs[-1][0] != b"Z":
        res["died"] = (f"exit status {p.returncode}, {len(recs)} records, output {'complete' if whole else 'cut short'}; "
                       f"stderr={p.stderr[:200].decode('latin-1')!r}")
    for tag, pl in recs:
        if tag == b"V":
            res["ptr"] = struct.unpack_from("<Q", pl, 1)[0] if pl[0] == 1 else None
        elif tag == b"S":
            entry, path_id = pl[0], pl[1]
            nn, inside, earlier, later, back, none = struct.unpack_from("<6I", pl, 2)
            tri = struct.unpack_from("<6q", pl, 26)
            lib_ns, = struct.unpack_from("<Q", pl, 74)
            res["cells"].append(dict(entry=entry, path=path_id, n=nn, inside=inside, earlier=earlier, later=later, back=back,
                                     none=none, tri=tri, lib_ns=lib_ns))
    return res


def path_name(res, path_id):
    """what the reader functions did in this cell"""
    if path_id == 1:
        return "syscall-fallback"
    if res["ptr"] is None:
        return "as-started"
    return "vdso" if res["ptr"] else "syscall-fallback"


def _fmt_tri(t):
    return f"kernel before={t[0]}.{t[1]:09d} library={t[2]}.{t[3]:09d} kernel after={t[4]}.{t[5]:09d}"


RULE = ("Clock identity of tiny_std::time in real executables (tiny-std `_start`, feature `executable` => `vdso`). ENUMERATED: "
        "link modes {dynamic PIE, static, static PIE} (debug; thorough adds release) x the six clock-reading entry points "
        "(MonotonicInstant::now, Instant::now, MonotonicInstant::elapsed, Instant::elapsed, SystemTime::now, SystemTime::elapsed) x "
        "{vDSO function as located at start-up, vDSO function pointer forced to None = system-call fallback of the same build}. "
        "SAMPLED (real time cannot be enumerated): in every cell N readings, each taken between two clock_gettime SYSTEM CALLS on the clock the entry point "
        "must read; elapsed() is turned into a reading as base+elapsed with the base a now() of the same type on the same path. A case is one reading; "
        "it is non-trivial when the kernel clock did not itself step back across it. Judged: a reading of one of the four monotonic entry points that is "
        "earlier than the kernel's CLOCK_MONOTONIC reading before it or later than the one after it is a decrease between successive readings of the monotonic clock; "
        "Instant::elapsed() == None for an earlier reading likewise. The SystemTime cells (CLOCK_REALTIME) are recorded, not judged. "
"START STATES (enumerated): every real-vDSO cell is run in the initial time namespace and again inside a time namespace with CLOCK_MONOTONIC +3000 s and CLOCK_BOOTTIME +7000 s "
        "(so that no two clock ids coincide); the synthetic images add 1000 s x id for every clock id other than REALTIME/MONOTONIC for the same purpose. "
        "SYNTHETIC IMAGES (enumerated): the static and static-PIE debug binaries are additionally started through a user-space exec loader that changes only AT_SYSINFO_EHDR, "
        "once with the kernel's own image (control) and once with each of 12 vDSO-shaped images: __vdso_clock_gettime (implemented by the real system call) at "
        "0x1000/0x1010/0x1020/0x1030 x .text sh_addralign 16/32/64, all neighbouring 16-byte slots being decoys that answer {0x7dec00kk s, 0 ns}; the as-started path of every entry point "
        "is sampled and judged by the same kernel sandwich.")


def _replay_of(res, ename, pname, n):
    d = dict(cfg=res["cfg"], image=res["image"], timens=bool(res.get("timens")), entry=ename, path=pname, n=res.get("n", n))
    if res.get("via"):
        d.update(slot=res["via"].get("slot"), align=res["via"].get("align"))
    return d


def report_from(results, n, caps, notes, tier):
    violations, outcomes, samples = {}, {}, []
    evaluations = nontrivial = 0

    def viol(key, desc, replay):
        v = violations.get(key)
        if v is None:
            violations[key] = dict(key=key, count=1, desc=desc, replay=replay)
        else:
            v["count"] += 1

    for res in results:
        cfg = res["cfg"]
        via = res.get("via")
        if res.get("timens"):
            cfg = cfg + TIMENS_TAG
        if via:
            cfg = f"{cfg}/{res['image']}"
        if res["died"]:
            outcomes[f"{cfg}/run:died"] = 1
            viol("C19:vdso:probe-died", f"[{cfg}] the probe did not complete: {res['died']} ({len(res['cells'])} cells reported before)",
                 _replay_of(res, None, None, n))
        elif not via:
            outcomes[f"{cfg}/run:complete"] = 1
        if res["ptr"] is None:
            outcomes[f"{cfg}/vdso-pointer:unknown(no symbol)"] = 1
        elif not via or not res["ptr"]:
            outcomes[f"{cfg}/vdso-pointer:{'found-at-startup' if res['ptr'] else 'none-at-startup'}"] = 1
        if via and via.get("slot") is not None and res["ptr"]:
            want_low = (SYNTH_TEXT_START + 16 * via["slot"]) & 0xFFF
            outcomes[f"{cfg}/vdso-pointer:{'image+st_value' if res['ptr'] & 0xFFF == want_low else 'NOT-image+st_value(low bits %#x, st_value low bits %#x)' % (res['ptr'] & 0xFFF, want_low)}"] = 1
        for c in res["cells"]:
            pname = path_name(res, c["path"])
            ename = ENTRIES[c["entry"]]
            evaluations += c["n"]
            nontrivial += c["n"] - c["back"]
            cell = f"{cfg}/{pname}/{ename}"
            if via:
                # one outcome line per (run, clock) instead of per entry point: the map stays readable
                cell = f"{cfg}/{pname}/{'4 monotonic entry points' if c['entry'] < JUDGED else '2 SystemTime entry points (not judged)'}"
            for k in ("inside", "earlier", "later", "back", "none"):
                if c[k]:
                    label = {"inside": "inside-kernel-sandwich", "earlier": "EARLIER-than-kernel-reading-before", "later": "LATER-than-kernel-reading-after",
                             "back": "kernel-clock-stepped-back(not judged)", "none": "elapsed-returned-None"}[k]
                    outcomes[f"{cell}:{label}"] = outcomes.get(f"{cell}:{label}", 0) + c[k]
            replay = _replay_of(res, ename, pname, n)
            if c["entry"] < JUDGED:
                if c["earlier"] or c["later"]:
                    viol(f"C19:{pname}:{ename}:reading-outside-kernel-sandwich",
                         f"[{cfg}, {pname} path] {c['earlier'] + c['later']} of {c['n']} readings of {ename} lie outside the two surrounding CLOCK_MONOTONIC "
                         f"system calls ({c['earlier']} earlier than the one before, {c['later']} later than the one after): first {_fmt_tri(c['tri'])}; "
                         f"the kernel reading that follows such a library reading is a DECREASE of the monotonic clock as the program sees it", replay)
                if c["none"]:
                    viol(f"C19:{pname}:{ename}:none-for-past-reading",
                         f"[{cfg}, {pname} path] {ename}() of a reading taken earlier on the same path returned None {c['none']} of {c['n']} times", replay)
            if len(samples) < 8 and (cfg.endswith("debug") or (via and via.get("slot") == 5 and via.get("align") == 32)) and c["entry"] in (0, 1, 3) and (not via or via.get("slot") == 5) and len([x for x in samples if x["cfg"] == cfg]) < 2:
                samples.append(dict(cfg=cfg, entry=ename, path=pname, readings=c["n"], inside=c["inside"], earlier=c["earlier"], later=c["later"],
                                    ns_per_library_call=round(c["lib_ns"] / max(1, c["n"]), 1)))
    cells = sum(len(r["cells"]) for r in results)
    return dict(
        evaluations=evaluations, distinct_nontrivial=nontrivial, samples=samples, violations=list(violations.values()),
        outcomes=outcomes, caps_hit=caps, notes=notes, rule=RULE,
        bounds=dict(tier=tier, readings_per_cell=n, cells=cells, runs=len(results),
                    configurations=sorted({r["cfg"] for r in results}, key=lambda c: [r["cfg"] for r in results].index(c)), entry_points=ENTRIES,
                    paths=["vdso", "syscall-fallback(pointer forced to None)"],
                    synthetic_images=sorted({r["image"] for r in results if r.get("via") and r["via"].get("slot") is not None})),
        # the cell grid is enumerated completely, the readings inside a cell are a sample
        exhaustive=False,
    )


def c19_vdso(tier="quick", seed=0, out=None, step=None, build=None, bin_path=None, env=None, replay=None):
    env = dict(os.environ if env is None else env)
    if replay is not None:
        return _replay(replay, env)
    t0 = time.time()
    configs = THOROUGH_CONFIGS if tier == "thorough" else QUICK_CONFIGS
    n = N_THOROUGH if tier == "thorough" else N_QUICK
    crate, target_root, repo = _crate_and_targets()
    built = builds(env, configs)
    t_build = time.time() - t0
    caps, notes, usable = [], [], []
    for m, p in configs:
        b = built[f"{m}-{p}"]
        if b["ok"]:
            usable.append((f"{m}-{p}", b["path"]))
        else:
            caps.append(f"configuration {m}-{p} does not build from {repo} and was left out: {b['err']}")
    if not usable:
        _machinery("the clock probe builds in no configuration: " + "; ".join(caps)[:1500])
    results = [run_probe(cfg, path, n) for cfg, path in usable]
    # start-state dimension: the same cells inside a time namespace with distinct offsets per clock
    why = timens_available()
    if why is None:
        results += [run_probe(cfg, path, n, timens=True) for cfg, path in usable]
        notes.append(f"time-namespace start state: every real-vDSO cell also run under `{' '.join(TIMENS_PREFIX)}` (CLOCK_MONOTONIC family +{TIMENS_MONO}s, "
                     f"CLOCK_BOOTTIME +{TIMENS_BOOT}s, CLOCK_REALTIME untouched)")
    else:
        caps.append(f"time-namespace cells NOT RUN ({why}): a reader asking for CLOCK_BOOTTIME / MONOTONIC_RAW instead of CLOCK_MONOTONIC is then "
                    f"decided by the synthetic images only")
        notes.append("time-namespace start state not available on this machine: cells not run (not a violation)")
    # synthetic-image dimension
    n_synth = N_SYNTH_THOROUGH if tier == "thorough" else N_SYNTH_QUICK
    t_s = time.time()
    sb = synth_build()
    if isinstance(sb, str):
        caps.append(sb + " -- synthetic-image dimension left out")
    else:
        loader, images = sb
        for cfg, path in usable:
            if cfg not in [f"{m}-debug" for m in SYNTH_MODES]:
                continue
            vias = [dict(loader=loader, image="-", name="kernel-vdso-via-loader", slot=None, align=None)]
            vias += [dict(loader=loader, image=p, name=synth_name(k, a), slot=k, align=a) for k, a, p in images]
            for via in vias:
                r = run_probe(cfg, path, n_synth, via)
                r["n"] = n_synth
                results.append(r)
        notes.append(f"synthetic-image dimension: {len(images)} images x {len(SYNTH_MODES)} link modes + loader-transparency controls, "
                     f"{n_synth} readings per cell, {time.time() - t_s:.1f}s including the (cached) gcc builds")
    for r in results:
        if r.get("via"):
            if r["ptr"] == 0:
                caps.append(f"{r['cfg']}/{r['image']}: start-up found no clock function in the image: cells vacuous")
            continue
        if not r["have_sym"]:
            caps.append(f"{r['cfg']}: tiny-std's private VDSO_CLOCK_GET_TIME not found in the symbol table: fallback path not forced, path of the as-started cells unknown")
        elif r["ptr"] == 0:
            caps.append(f"{r['cfg']}: start-up found no vDSO clock function: only the system-call fallback ran (vDSO cells vacuous)")
    notes.append(f"probe built from {repo}; build {t_build:.1f}s, run {time.time() - t0 - t_build:.1f}s; configurations: {', '.join(c for c, _ in usable)}")
    notes.append("SAMPLED: the readings inside each (link mode, entry point, path) cell are a sample of real time; the cell grid itself is enumerated completely")
    notes.append("the `#[cfg(not(feature = \"vdso\"))]` readers are sandwiched the same way in h-time phase `clock` (harness build, no vdso feature)")
    notes.append("not covered: a kernel started without a vDSO (AT_SYSINFO_EHDR absent) cannot be produced cheaply; the same branch is entered by forcing the function pointer to None")
    rep = report_from(results, n, caps, notes, tier)
    rep["bounds"].update(build_s=round(t_build, 1), run_s=round(time.time() - t0 - t_build, 1), readings_per_cell_synthetic=n_synth)
    if out:
        json.dump(rep, open(out, "w"), indent=1)
    return rep


def _replay(d, env):
    rp = d.get("replay", d)
    cfg = rp["cfg"]
    mode, profile = cfg.rsplit("-", 1)
    _, _, repo = _crate_and_targets()
    b = builds(env, [(mode, profile)])[cfg]
    if not b["ok"]:
        _machinery(f"{cfg} does not build: {b['err']}")
    via = None
    if rp.get("image", "kernel-vdso") != "kernel-vdso":
        sb = synth_build()
        if isinstance(sb, str):
            _machinery(sb)
        loader, images = sb
        if rp.get("slot") is None:
            via = dict(loader=loader, image="-", name="kernel-vdso-via-loader", slot=None, align=None)
        else:
            k, a = int(rp["slot"]), int(rp["align"])
            via = dict(loader=loader, image=next(p for kk, aa, p in images if (kk, aa) == (k, a)), name=synth_name(k, a), slot=k, align=a)
    if rp.get("timens"):
        why = timens_available()
        if why:
            _machinery("cannot replay a time-namespace case here: " + why)
    res = run_probe(cfg, b["path"], int(rp.get("n", N_QUICK)), via, timens=bool(rp.get("timens")))
    rep = report_from([res], int(rp.get("n", N_QUICK)), [], [], "quick")
    print(f"replay C19 clock identity {cfg}{TIMENS_TAG if res['timens'] else ''} [{res['image']}]: binary {b['path']} (built from {repo}); vDSO pointer at start-up: "
          f"{'unknown' if res['ptr'] is None else hex(res['ptr'])}")
    for c in res["cells"]:
        print(f"  {path_name(res, c['path']):17s} {ENTRIES[c['entry']]:26s} n={c['n']} inside={c['inside']} earlier={c['earlier']} later={c['later']} "
              f"none={c['none']} kernel-stepped-back={c['back']}")
    want = d.get("key")
    hits = [v for v in rep["violations"] if want is None or v["key"] == want]
    for v in hits:
        print(f"  VIOLATED {v['key']}: {v['desc']}")
    if not hits:
        print("  result: every judged reading lay inside its kernel sandwich (no violation)")
    return 1 if hits else 0


def main(argv):
    tier, js = "quick", None
    i = 0
    while i < len(argv):
        if argv[i] in ("quick", "thorough"):
            tier = argv[i]
        elif argv[i] == "--json":
            js = argv[i + 1]
            i += 1
        i += 1
    t0 = time.time()
    rep = c19_vdso(tier=tier, out=js)
    print(f"C19 vdso-clock-identity [{tier}] readings={rep['evaluations']} cells={rep['bounds']['cells']} violations={len(rep['violations'])} "
          f"outcomes={len(rep['outcomes'])} wall={time.time() - t0:.1f}s (build {rep['bounds']['build_s']}s, run {rep['bounds']['run_s']}s)")
    for v in rep["violations"]:
        print(f"  {v['key']} x{v['count']}: {v['desc'][:500]}")
    for c in rep["caps_hit"]:
        print("  cap:", c[:300])
    for s in rep["samples"]:
        print("  sample:", s)
    return 1 if rep["violations"] else 0


if __name__ == "__main__":
    sys.exit(main(sys.argv[1:]))
