#!/usr/bin/env python3
"""Regenerate /verif/MANIFEST.json from lib/registry.py (checks) and lib/manifest_static.json (hooks, notes, texts)."""
import json, os, sys
ROOT = os.path.dirname(os.path.dirname(os.path.abspath(__file__)))
sys.path.insert(0, os.path.join(ROOT, "lib"))
from registry import PROPS
static = json.load(open(os.path.join(ROOT, "lib", "manifest_static.json")))
props = [json.loads(l) for l in open(os.path.join(ROOT, "properties.jsonl"))]
checks, na = [], []
for p in props:
    pid = p["id"]
    if pid in PROPS:
        sp = PROPS[pid]
        t = static["texts"].get(pid, {})
        checks.append(dict(
            property_id=pid,
            quick_cmd=f"./check {pid} --tier quick",
            thorough_cmd=f"./check {pid} --tier thorough",
            evidence_file=f"/verif/evidence/{pid}.json",
            replay_cmd_template=f"./check {pid} --replay {{path}}",
            engine=", ".join(sorted({s.get('pkg') or s.get('fn') for s in sp["steps"]})),
            level_claimed=dict(category=sp["level"], text=t.get("text", sp.get("technique", "")), design_ref=t.get("design_ref", "DESIGN.md section 4")),
            level_note=t.get("note", "; ".join(sp.get("assumptions", [])) or "bounded enumeration; see DESIGN.md section 7"),
            technique=sp.get("technique", ""),
        ))
    else:
        na.append(dict(property_id=pid, reason=static["not_applicable"].get(pid, "check not built yet (work in progress); see DESIGN.md section 4 for the planned bounded-exhaustive check")))
m = dict(version=1, setup_cmd="./check --setup", hooks=static["hooks"], engines=static["engines"], checks=checks, notes=static["notes"], not_applicable=na)
json.dump(m, open(os.path.join(ROOT, "MANIFEST.json"), "w"), indent=1)
try:
    import jsonschema
    jsonschema.validate(m, json.load(open("/root/.vp/MANIFEST.schema.json")))
    print("MANIFEST.json valid;", len(checks), "checks,", len(na), "not_applicable")
except ImportError:
    print("MANIFEST.json written (jsonschema not importable here);", len(checks), "checks")
