"""C05 (spawn/join) and C06 (thread resources released exactly once): protocol model
(explicit-state BFS, all interleavings) + replay of every maximal model trace as a gate
schedule on the real no-libc binary (/verif/engines/probe-thread, hook H3), histories
with a resource-fingerprint lasso, and system-call fault injection under strace.

Entry points (kind="py" steps of /verif/check): run_c05(**kw), run_c06(**kw).

Registry wiring:
    import steps_thread
    PYSTEPS["thread_c05"] = steps_thread.run_c05
    PYSTEPS["thread_c06"] = steps_thread.run_c06
    "C05": steps=[dict(kind="py", fn="thread_c05", name="thread", pkg="probe-thread", bin="probe-thread",
                       phase=None, builds=steps_thread.SETUP_BUILDS)]           (C06 likewise with thread_c06)

Both entry points share one set of probe executions per tier (cached in
/verif/work/probe-thread.<tier>.cache.json, keyed by the probe binary and this file, valid 30 min);
each reports only its own property's violation keys.

Environment:
    VERIF_THREAD_REPO=<dir>  build the probe against <dir>/tiny-std instead of /repo (a copy of the probe
                             manifest with rewritten paths and its target dir are placed under
                             <dir>/.probe-thread-*/, so removing <dir> removes everything).  Used to
                             demonstrate detection on a mutated copy.

Stand-alone:  python3 /verif/lib/steps_thread.py C05|C06 [quick|thorough] [--no-cache]
"""
import atexit
import concurrent.futures
import hashlib
import itertools
import json
import os
import re
import shutil
import signal
import subprocess
import sys
import tempfile
import time
from collections import deque

ROOT = os.path.dirname(os.path.dirname(os.path.abspath(__file__)))
CRATE = os.path.join(ROOT, "engines", "probe-thread")
TARGET = os.path.join(ROOT, "target-probe-thread")
WORK = os.path.join(ROOT, "work")
RUSTFLAGS = "-C panic=abort -C link-arg=-nostartfiles"
STACK_SZ = 8192 * 16 * 16
M64 = (1 << 64) - 1
WORKERS = 16
# what `check --setup` builds (cargo build -p probe-thread in the crate's own directory)
SETUP_BUILDS = [dict(pkg="probe-thread", bin="probe-thread", cwd=CRATE, target_dir=TARGET, build_env={"RUSTFLAGS": RUSTFLAGS})]

GATE = {
    1: "SPAWN_BLOCK_ALLOCATED", 2: "SPAWN_STACK_MAPPED", 3: "SPAWN_BEFORE_CLONE", 4: "SPAWN_AFTER_CLONE",
    10: "JOIN_BEFORE_WAIT", 11: "JOIN_BEFORE_READ_RESULT", 12: "JOIN_BEFORE_FREE_BLOCK",
    20: "DROP_BEFORE_CAS", 21: "DROP_BEFORE_WAIT", 22: "DROP_BEFORE_FREE_BLOCK",
    30: "THREAD_BEFORE_BODY", 31: "THREAD_BEFORE_STORE_RESULT", 32: "THREAD_BEFORE_CAS",
    33: "THREAD_BEFORE_RESET_TID", 34: "THREAD_BEFORE_FREE_BLOCK", 35: "THREAD_BEFORE_FREE_TLS",
    40: "PANIC_BEFORE_FREE_TLS", 41: "PANIC_BEFORE_CAS", 42: "PANIC_BEFORE_RESET_TID",
    43: "PANIC_BEFORE_FREE_BLOCK", 44: "PANIC_BEFORE_UNMAP_EXIT",
}
JOIN_OPS = ("j", "J", "w", "s", "T")  # join at once / after the thread is gone / while the thread still sleeps (1.5 ms, 300 ms)
PANIC_KINDS = "peomw"  # p plain panic; e/o inside an eprintln!/println! argument; m/w holding a Mutex / RwLock write guard


def is_panic(p):
    """second field of a spec: False/True, or a closure-kind letter (see probe-thread/src/main.rs)"""
    return p is True or (isinstance(p, str) and p in PANIC_KINDS)


def kind_letter(p):
    return p if isinstance(p, str) else ("p" if p else "r")


KGATE = 99  # model-only step: kernel exit of the thread (clear-tid write + wake)

# ======================================================================================
# 1. Protocol model
# ======================================================================================
# Per-thread record (tuple):
#  0 tpc     next gate of the thread (0 not created, 30.., 99 = left user code, K pending, 100 gone)
#  1 flag    the sync flag (CAS false->true decides who frees the join block)
#  2 word    the exit word inside the join block (1 UNFINISHED, 0 after K)
#  3 ctid    clear-tid address still registered with the kernel
#  4 block   0 none, 1 live, 2 freed          5 tls    likewise
#  6 stack   0 none, 1 mapped, 2 unmapped     7 closure box likewise
#  8 stored  result slot written               9 runs   closure body executions
# 10 panicked                                  11 result 0 n/a, 1 Some, 2 None (what join returned)
# 12 free_by gate of the step that freed the join block
T0 = (0, 0, 1, 0, 0, 0, 0, 0, 0, 0, 0, 0, 0)

# Model mutants (self-test of the invariants; also mirror the bugs injected into the code)
MUTANTS = ("no-reset-tid", "drop-cas-swapped", "join-reads-before-wait", "thread-skips-free-block",
           "handle-frees-when-cas-won", "body-twice")


class Cfg:
    """threads: list of (panics: bool, op: 'j'|'d'); order: 'f'|'r' (order of the handle ops)"""

    def __init__(self, threads, order="f", mutant=None):
        self.threads = list(threads)
        self.order = order
        self.mutant = mutant
        n = len(self.threads)
        self.prog = [("s", i) for i in range(n)]
        idx = range(n) if order == "f" else range(n - 1, -1, -1)
        self.prog += [("o", i) for i in idx]

    def init(self):
        return (0, 1, tuple(T0 for _ in self.threads))


def _h_first_gate(cfg, seg):
    if seg >= len(cfg.prog):
        return 0
    kind, i = cfg.prog[seg]
    if kind == "s":
        return 1
    return 10 if cfg.threads[i][1] == "j" else 20


def _set(t, **kw):
    names = ("tpc", "flag", "word", "ctid", "block", "tls", "stack", "closure", "stored", "runs", "panicked", "result", "free_by")
    l = list(t)
    for k, v in kw.items():
        l[names.index(k)] = v
    return tuple(l)


def _kernel_exit(t, errs):
    if t[3]:
        if t[4] != 1:
            errs.append("kernel-clear-tid-write-into-freed-join-block")
        t = _set(t, word=0)
    return _set(t, tpc=100)


def successors(cfg, st, fused):
    """All enabled steps of state `st`: list of ((ord, gate, kind), new state, [violated invariants]).
    fused=True merges the thread's last user step with K (what the real binary can be made to do)."""
    seg, hg, ths = st
    out = []
    mut = cfg.mutant
    # ---- handle owner ----
    if seg < len(cfg.prog):
        kind, i = cfg.prog[seg]
        t = ths[i]
        errs = []
        enabled = True
        nt = t
        nseg, nhg = seg, hg
        k = "n"

        def done():
            return seg + 1, _h_first_gate(cfg, seg + 1)

        def touch(what):
            if nt[4] != 1:
                errs.append(what)

        def free_block(g):
            if nt[4] != 1:
                errs.append("join-block-freed-twice" if nt[4] == 2 else "join-block-free-of-nothing")
            return _set(nt, block=2, free_by=g)

        if hg == 1:
            nt = _set(t, block=1, closure=1, stack=1)
            nhg = 2
        elif hg == 2:
            nt = _set(t, tls=1)
            nhg = 3
        elif hg == 3:
            nt = _set(t, tpc=30, ctid=1)
            nhg = 4
        elif hg == 4:
            nseg, nhg = done()
        elif hg == 10:
            touch("join-wait-touches-freed-join-block")
            nhg = 11
            k = "b" if t[2] == 1 else "n"
            if mut == "join-reads-before-wait":
                # mutant: the result is read here, before the wait
                if not (t[8] or t[10]):
                    errs.append("join-read-before-result-stored")
        elif hg in (11, 22):
            if t[2] == 1:
                enabled = False  # asleep on the exit word until K
            elif hg == 11:
                touch("join-read-touches-freed-join-block")
                if t[6] != 2:
                    errs.append("join-returned-before-thread-finished")
                if not (t[8] or t[10]):
                    errs.append("join-read-before-result-stored")
                res = 1 if t[8] else 2
                if res == 2 and not t[10]:
                    errs.append("join-none-without-panic")
                if res == 1 and t[10]:
                    errs.append("join-some-after-panic")
                nt = _set(t, result=res)
                nhg = 12
            else:
                nt = free_block(22)
                nseg, nhg = done()
        elif hg == 12:
            nt = free_block(12)
            nseg, nhg = done()
        elif hg == 20:
            touch("drop-cas-touches-freed-join-block")
            won = t[1] == 0
            nt = _set(t, flag=1)
            if mut == "drop-cas-swapped":
                won = not won
            if mut == "handle-frees-when-cas-won" and won:
                nt = free_block(20)
            if won:
                nseg, nhg = done()
            else:
                nhg = 21
        elif hg == 21:
            touch("drop-wait-touches-freed-join-block")
            nhg = 22
            k = "b" if t[2] == 1 else "n"
        if enabled:
            nths = ths[:i] + (nt,) + ths[i + 1:]
            out.append(((i, hg, k), (nseg, nhg, nths), errs))
    # ---- threads ----
    for i, t in enumerate(ths):
        pc = t[0]
        if pc == 0 or pc == 100:
            continue
        errs = []
        k = "n"
        nt = t

        def touch(what):
            if nt[4] != 1:
                errs.append(what)

        if pc == 30:
            runs = t[9] + (2 if mut == "body-twice" else 1)
            if cfg.threads[i][0]:
                nt = _set(t, runs=runs, panicked=1, tpc=40)
            else:
                nt = _set(t, runs=runs, tpc=31)
        elif pc == 31:
            touch("thread-store-into-freed-join-block")
            nt = _set(t, stored=1, tpc=32)
        elif pc in (32, 41):
            touch("thread-cas-touches-freed-join-block")
            last = 35 if pc == 32 else 44
            if t[1] == 0:
                nt = _set(t, flag=1, tpc=last)
            else:
                nt = _set(t, tpc=pc + 1)
        elif pc in (33, 42):
            nt = _set(t, tpc=pc + 1) if mut == "no-reset-tid" else _set(t, ctid=0, tpc=pc + 1)
        elif pc in (34, 43):
            if mut == "thread-skips-free-block":
                nt = _set(t, tpc=pc + 1)
            else:
                if t[4] != 1:
                    errs.append("join-block-freed-twice" if t[4] == 2 else "join-block-free-of-nothing")
                nt = _set(t, block=2, free_by=pc, tpc=pc + 1)
        elif pc == 35:
            if t[5] != 1:
                errs.append("tls-freed-twice")
            if t[7] != 1:
                errs.append("closure-freed-twice")
            nt = _set(t, tls=2, closure=2, stack=2, tpc=KGATE)
            k = "x"
        elif pc == 40:
            if t[5] != 1:
                errs.append("tls-freed-twice")
            nt = _set(t, tls=2, tpc=41)
        elif pc == 44:
            nt = _set(t, stack=2, tpc=KGATE)
            k = "x"
        elif pc == KGATE:
            nt = _kernel_exit(t, errs)
            k = "k"
        if fused and nt[0] == KGATE:
            nt = _kernel_exit(nt, errs)
        nths = ths[:i] + (nt,) + ths[i + 1:]
        out.append(((i, pc, k), (seg, hg, nths), errs))
    return out


def terminal_errors(cfg, st):
    seg, hg, ths = st
    errs = []
    if seg < len(cfg.prog) or any(t[0] != 100 for t in ths):
        # nothing enabled, somebody not finished: the handle sleeps on the exit word for ever
        errs.append("deadlock-join-or-drop-never-returns")
        return errs
    for i, t in enumerate(ths):
        if t[9] != 1:
            errs.append("closure-ran-%d-times" % t[9])
        if t[4] != 2:
            errs.append("join-block-leaked")
        if t[5] != 2:
            errs.append("tls-leaked")
        if t[6] != 2:
            errs.append("stack-leaked")
        if t[7] != 2 and not t[10]:
            errs.append("closure-leaked-without-panic")
    return errs


def explore(cfg):
    """BFS over ALL interleavings (K separate).  -> dict(states, transitions, errors{name: trace})"""
    init = cfg.init()
    seen = {init: None}
    q = deque([init])
    trans = 0
    errors = {}

    def trace_to(st, last=None):
        tr = [] if last is None else [last]
        while seen[st] is not None:
            pst, lab = seen[st]
            tr.append(lab)
            st = pst
        return list(reversed(tr))

    while q:
        st = q.popleft()
        succ = successors(cfg, st, False)
        if not succ:
            for e in terminal_errors(cfg, st):
                errors.setdefault(e, trace_to(st))
        for lab, nst, errs in succ:
            trans += 1
            for e in errs:
                if e not in errors:
                    errors[e] = trace_to(st, lab)
            if nst not in seen:
                seen[nst] = (st, lab)
                q.append(nst)
    return dict(states=len(seen), transitions=trans, errors=errors)


def maximal_traces(cfg):
    """Every maximal trace of the fused model (thread's last step + K atomic): these are the
    schedules the gate controller can impose.  Each item: (labels, final state)."""
    res = []
    stack = [(cfg.init(), [])]
    while stack:
        st, tr = stack.pop()
        succ = successors(cfg, st, True)
        if not succ:
            res.append((tr, st))
            continue
        for lab, nst, _errs in reversed(succ):
            stack.append((nst, tr + [lab]))
    return res


def project(trace, i):
    return [(o, g, k) for (o, g, k) in trace if o == i]


def linearize(cfg, per_thread, policy):
    """Given one single-thread trace per thread (lists of gate ids, handle + thread steps of that
    thread in their order), build an interleaving of the n-thread fused model that projects onto
    them.  policy: 'early' prefers thread steps of the lowest ordinal, 'late' prefers the handle
    owner, 'rr' alternates."""
    st = cfg.init()
    ptr = [0] * len(per_thread)
    out = []
    turn = 0
    while True:
        succ = successors(cfg, st, True)
        cands = []
        for lab, nst, errs in succ:
            o, g, _k = lab
            if ptr[o] < len(per_thread[o]) and per_thread[o][ptr[o]] == g:
                cands.append((lab, nst))
        if not cands:
            break
        if policy == "early":
            cands.sort(key=lambda c: (c[0][1] < 30, c[0][0]))
        elif policy == "late":
            cands.sort(key=lambda c: (c[0][1] >= 30, -c[0][0]))
        else:
            cands.sort(key=lambda c: ((c[0][0] + (c[0][1] >= 30) + turn) % (2 * len(per_thread)), c[0][1]))
            turn += 1
        lab, nst = cands[0]
        out.append(lab)
        ptr[lab[0]] += 1
        st = nst
    if any(ptr[i] != len(per_thread[i]) for i in range(len(per_thread))):
        return None, st
    return out, st


def predict(cfg, final):
    """What the model says the real run must show, per thread."""
    _seg, _hg, ths = final
    pred = []
    for i, t in enumerate(ths):
        pred.append(dict(panics=bool(cfg.threads[i][0]), op=cfg.threads[i][1], result={0: None, 1: "some", 2: "none"}[t[11]],
                         block_free_by=t[12], reset_tid=(t[3] == 0), stored=bool(t[8])))
    return pred


def sched_string(trace):
    return ",".join("%d.%d.%s" % (o, g, k) for (o, g, k) in trace)


# ======================================================================================
# 2. Values (mirror of probe-thread/src/main.rs)
# ======================================================================================
TYPES = ("unit", "u8", "u64", "a3", "al64", "big", "box", "str", "a16", "a32", "a64x", "a4k", "tok", "vec", "lease", "en")
# tok/vec/lease/en (and str): Option::None of these is NOT the all-zero pattern (niche in a bool / capacity / enum field);
# tok = Token{live: bool, id: u32} with a destructor that counts its runs per id (id 0 is never made), lease = {Box<u64>, bool}
# a16 = u128; a32/a64x/a4k = #[repr(align(32|64|4096))] byte arrays of 40/65/100 bytes whose last bytes matter
HEAP_TYPES = {"box": (8, 8), "str": (24, 1), "pdb": (8, 8), "vec": (16, 1), "lease": (8, 8)}
# results whose destructor panics (plain / heap-owning): never in TYPES rotations, they need their own scenarios
DTOR_PANIC_TYPES = ("pd", "pdb")
FNV0 = 0xCBF29CE484222325


def v64(t):
    return (t * 0x9E3779B97F4A7C15 + 1) & M64


def fnv(b, h=FNV0):
    for x in b:
        h ^= x
        h = (h * 0x100000001B3) & M64
    return h


def _pattern(n, t):
    return bytes((t * 7 + i * 13 + 1) & 255 for i in range(n))


def value_bytes(ty, t):
    if ty == "unit":
        return b""
    if ty == "a16":
        return ((v64(t) << 64) | v64(t + 1)).to_bytes(16, "little")
    if ty == "a32":
        return _pattern(40, t)
    if ty == "a64x":
        return _pattern(65, t)
    if ty == "a4k":
        return _pattern(100, t)
    if ty == "tok":
        return ((t % 0xFFFFFFF0) + 1).to_bytes(4, "little") + b"\x01"
    if ty == "vec":
        return bytes((t * 3 + i * 5 + 2) & 255 for i in range(12))
    if ty == "lease":
        return ((v64(t) + 11) & M64).to_bytes(8, "little") + b"\x01"
    if ty == "en":
        return bytes([t % 3])
    if ty == "pd":
        return v64(t).to_bytes(8, "little")
    if ty == "pdb":
        return ((v64(t) + 7) & M64).to_bytes(8, "little")
    if ty == "u8":
        return bytes([(t * 37 + 11) & 255])
    if ty == "u64":
        return v64(t).to_bytes(8, "little")
    if ty == "a3":
        return bytes([t & 255, (t + 1) & 255, (t + 2) & 255])
    if ty == "al64":
        return v64(t).to_bytes(8, "little") + bytes((t + i) & 255 for i in range(56))
    if ty == "big":
        return b"".join((v64(t) ^ i).to_bytes(8, "little") for i in range(512))
    if ty == "box":
        return ((v64(t) + 7) & M64).to_bytes(8, "little")
    if ty == "str":
        return ("thread-%d-result" % t).encode()
    raise ValueError(ty)


def digest(ty, t):
    return fnv(value_bytes(ty, t))


def effect_val(t):
    return v64(t) ^ 0x5555555555555555


def mix(size, align):
    h = ((size * 0x9E3779B97F4A7C15) & M64) ^ ((align * 0xC2B2AE3D27D4EB4F) & M64)
    h ^= h >> 29
    h = (h * 0xBF58476D1CE4E5B9) & M64
    h ^= h >> 32
    return h


# ======================================================================================
# 3. Building and running the probe
# ======================================================================================
_BUILD = {}


def build_probe(env=None):
    """cargo build of the probe against the current tree of the repository (or a scratch copy
    named by VERIF_THREAD_REPO, used to demonstrate detection of injected bugs)."""
    repo = os.environ.get("VERIF_THREAD_REPO", "/repo").rstrip("/")
    if repo in _BUILD:
        return _BUILD[repo]
    e = dict(env or os.environ)
    e["CARGO_NET_OFFLINE"] = "true"
    e["RUSTFLAGS"] = RUSTFLAGS
    e.pop("CARGO_ENCODED_RUSTFLAGS", None)
    if repo == "/repo":
        crate, target = CRATE, TARGET
    else:
        tag = hashlib.sha256(repo.encode()).hexdigest()[:10]
        crate = os.path.join(repo, ".probe-thread-" + tag)
        target = os.path.join(crate, "target")
        os.makedirs(crate, exist_ok=True)
        toml = open(os.path.join(CRATE, "Cargo.toml")).read().replace('"/repo/', '"%s/' % repo)
        with open(os.path.join(crate, "Cargo.toml"), "w") as f:
            f.write(toml)
        if os.path.exists(os.path.join(CRATE, "Cargo.lock")):
            shutil.copy(os.path.join(CRATE, "Cargo.lock"), os.path.join(crate, "Cargo.lock"))
        src = os.path.join(crate, "src")
        if not os.path.lexists(src):
            os.symlink(os.path.join(CRATE, "src"), src)
    e["CARGO_TARGET_DIR"] = target
    p = subprocess.run(["cargo", "build", "--offline"], cwd=crate, env=e, stdout=subprocess.PIPE, stderr=subprocess.STDOUT, text=True)
    if p.returncode != 0:
        print("MACHINERY-FAILURE: build of probe-thread failed (the probe no longer fits the repository sources?)\n" +
              "\n".join(p.stdout.splitlines()[-40:]), flush=True)
        sys.exit(2)
    binp = os.path.join(target, "debug", "probe-thread")
    _BUILD[repo] = binp
    return binp


_TMPDIR = None


def tmpdir():
    global _TMPDIR
    if _TMPDIR is None:
        os.makedirs(WORK, exist_ok=True)
        for d in os.listdir(WORK):  # leftovers of a killed run
            p = os.path.join(WORK, d)
            if d.startswith("probe-thread.tmp.") and os.path.isdir(p) and time.time() - os.path.getmtime(p) > 3600:
                shutil.rmtree(p, ignore_errors=True)
        _TMPDIR = tempfile.mkdtemp(prefix="probe-thread.tmp.", dir=WORK)
        atexit.register(cleanup_tmp)
    return _TMPDIR


def cleanup_tmp():
    global _TMPDIR
    if _TMPDIR and os.path.isdir(_TMPDIR):
        shutil.rmtree(_TMPDIR, ignore_errors=True)
    _TMPDIR = None


_SEQ = itertools.count(1)
_KEPT = [0]


def keep_evidence(name, res):
    """VERIF_THREAD_KEEP=<dir>: raw stdout + strace log of violating runs are kept there (at most 40)"""
    d = os.environ.get("VERIF_THREAD_KEEP")
    if not d or _KEPT[0] >= 40:
        return
    _KEPT[0] += 1
    os.makedirs(d, exist_ok=True)
    base = os.path.join(d, "%d.%s" % (_KEPT[0], re.sub(r"[^A-Za-z0-9_.-]+", "_", name)[:80]))
    with open(base + ".out", "w") as f:
        f.write(res["out"] + "\n--- stderr ---\n" + res["err"] + "\n--- rc %s timed_out %s\n" % (res["rc"], res["timed_out"]))
    with open(base + ".strace", "w") as f:
        f.write(res["strace"])
STRACE_SET = "trace=mmap,munmap,mremap,clone,clone3,exit,exit_group,futex,set_tid_address"


def run_probe(binp, argv, strace=False, inject=None, timeout=20.0):
    """-> dict(rc, out, strace, timed_out).  rc<0: killed by that signal."""
    cmd = [binp] + list(argv)
    slog = None
    if strace or inject:
        slog = os.path.join(tmpdir(), "s%d.%d.log" % (os.getpid(), next(_SEQ)))
        pre = ["strace", "-f", "-e", STRACE_SET, "-o", slog]
        if inject:
            pre += ["-e", "inject=" + inject]
        else:
            pre.insert(2, "--seccomp-bpf")
        cmd = pre + cmd
    p = subprocess.Popen(cmd, stdout=subprocess.PIPE, stderr=subprocess.PIPE, start_new_session=True)
    timed_out = False
    try:
        out, err = p.communicate(timeout=timeout)
    except subprocess.TimeoutExpired:
        timed_out = True
        try:
            os.killpg(p.pid, signal.SIGKILL)
        except ProcessLookupError:
            pass
        out, err = p.communicate()
    st = ""
    if slog:
        try:
            st = open(slog, errors="replace").read()
            os.remove(slog)
        except OSError:
            pass
    return dict(rc=p.returncode, out=out.decode(errors="replace"), err=err.decode(errors="replace")[-2000:], strace=st, timed_out=timed_out)


# ======================================================================================
# 4. Parsing
# ======================================================================================
def parse_report(text):
    r = dict(mode=None, main_tid=0, base=None, end=None, maps0=[], maps1=[], spawn={}, join={}, drop=[], runs={}, alive=None,
             blocks={}, tids={}, gt=[], log=[], poison=None, poisonbad=[], live=[], counters=None, stuck=None, done=False,
             aborted=False, fp=[], hist=None, concurrent=None, settle_timeouts=0, prejoin_live=None, joining=[], usage=False,
             early=[], early_total=0, stillrunning=[], notcleared=[], notgone=[], canarybad=[], canary=None, tok={}, toktotal=None)

    def snap(w):
        return dict(maps=int(w[2]), vm=int(w[4]), tasks=int(w[6]), live_n=int(w[8]), live_bytes=int(w[9]), live_hash=int(w[10], 16))

    for line in text.splitlines():
        w = line.split()
        if not w:
            continue
        k = w[0]
        try:
            if k == "mode":
                r["mode"] = w[1]
            elif k == "main_tid":
                r["main_tid"] = int(w[1])
            elif k == "base":
                r["base"] = snap(w)
            elif k == "end":
                r["end"] = snap(w)
            elif k in ("maps0", "maps1"):
                a, b = w[1].split("-")
                r[k].append((int(a, 16), int(b, 16), " ".join(w[2:])))
            elif k == "spawn":
                r["spawn"][int(w[1])] = (int(w[2]), int(w[3]) if len(w) > 3 else 0)
            elif k == "join":
                r["join"][int(w[1])] = dict(kind=w[2], digest=int(w[3], 16), effect=int(w[5], 16), runs=int(w[7]))
            elif k == "drop":
                r["drop"].append(int(w[1]))
            elif k == "runs":
                r["runs"][int(w[1])] = dict(runs=int(w[2]), effect=int(w[4], 16))
            elif k == "alive":
                r["alive"] = int(w[1])
            elif k == "block":
                r["blocks"][int(w[1])] = int(w[2], 16)
            elif k == "tid":
                r["tids"][int(w[1])] = int(w[2])
            elif k == "gt":
                r["gt"].append((int(w[1]), int(w[2]), int(w[3])))
            elif k == "a":
                r["log"].append(dict(op=w[1], addr=int(w[2], 16), size=int(w[3]), align=int(w[4]), tid=int(w[5]), ord=int(w[6]), gate=int(w[7])))
            elif k == "poison":
                r["poison"] = (int(w[1]), int(w[2]))
            elif k == "poisonbad":
                r["poisonbad"].append(dict(addr=int(w[1], 16), size=int(w[2]), off=int(w[3]), byte=int(w[4])))
            elif k == "live":
                r["live"].append((int(w[1], 16), int(w[2]), int(w[3])))
            elif k == "counters":
                r["counters"] = dict(zip(("allocs", "frees", "bad_frees", "log_lost", "quar_lost", "live_lost"), map(int, w[1:])))
            elif k == "stuck":
                r["stuck"] = dict(why=w[1], waiter=(int(w[3]), int(w[4])), pos=int(w[6]), busy=int(w[8]),
                                  want=(w[10], int(w[11])))
            elif k == "done":
                r["done"] = True
            elif k == "aborted":
                r["aborted"] = True
            elif k == "fp":
                r["fp"].append(dict(rep=int(w[1]), live_n=int(w[2]), live_bytes=int(w[3]), live_hash=int(w[4], 16), maps=int(w[5]), vm=int(w[6]), tasks=int(w[7])))
            elif k == "hist":
                r["hist"] = dict(threads=int(w[1]), bad_runs=int(w[2]), bad_join=int(w[3]), hangs=int(w[4]))
            elif k == "concurrent":
                r["concurrent"] = (int(w[1]), int(w[2]))
            elif k == "settle_timeouts":
                r["settle_timeouts"] = int(w[1])
            elif k == "prejoin_live":
                r["prejoin_live"] = (int(w[1]), int(w[2]))
            elif k == "joining":
                r["joining"].append(int(w[1]))
            elif k == "tok":
                r["tok"][int(w[1])] = (int(w[2]), int(w[3]))
            elif k == "toktotal":
                r["toktotal"] = tuple(int(x) for x in w[1:5])
            elif k == "canarybad":
                r["canarybad"].append(dict(addr=int(w[1], 16), size=int(w[2]), rear=int(w[3]), off=int(w[4]), byte=int(w[5])))
            elif k == "canary":
                r["canary"] = (int(w[1]), int(w[2]))
            elif k in ("notcleared", "notgone"):
                r[k].append(int(w[1]))
            elif k == "stillrunning":
                r["stillrunning"].append(int(w[1]))
            elif k == "early":
                r["early"].append((int(w[1]), int(w[2]), int(w[3], 16)))
            elif k == "early_total":
                r["early_total"] = int(w[1])
            elif k == "usage-error":
                r["usage"] = True
        except (ValueError, IndexError):
            r.setdefault("garbled", []).append(line)
    return r


_RE_LINE = re.compile(r"^(\d+)\s+(.*)$")
_RE_CALL = re.compile(r"^(\w+)\((.*)\)\s+= (.+)$")


def parse_strace(text):
    """-> list of events dict(i0, i1, pid, name, args, ret) in log order of their START; i1 = line where
    the call completed.  Also '+++ exited' as name='+exited'."""
    ev = []
    pending = {}
    for i, line in enumerate(text.splitlines()):
        m = _RE_LINE.match(line)
        if not m:
            continue
        pid = int(m.group(1))
        rest = m.group(2)
        if rest.startswith("+++"):
            ev.append(dict(i0=i, i1=i, pid=pid, name="+exited" if "exited" in rest else "+killed", args=rest, ret=""))
            continue
        if rest.startswith("---"):
            ev.append(dict(i0=i, i1=i, pid=pid, name="-signal", args=rest, ret=""))
            continue
        if rest.endswith("<unfinished ...>"):
            name = rest.split("(", 1)[0]
            e = dict(i0=i, i1=None, pid=pid, name=name, args=rest[len(name) + 1:-len("<unfinished ...>")].strip(), ret=None)
            pending[pid] = e
            ev.append(e)
            continue
        if rest.startswith("<..."):
            m2 = re.match(r"^<\.\.\. (\w+) resumed>(.*)$", rest)
            e = pending.pop(pid, None)
            if m2 and e is not None:
                tail = m2.group(2)
                m3 = re.match(r"^(.*)\)\s+= (.+)$", tail)
                if m3:
                    e["args"] = (e["args"] + m3.group(1)).strip()
                    e["ret"] = m3.group(2).strip()
                e["i1"] = i
            continue
        m4 = _RE_CALL.match(rest)
        if m4:
            ev.append(dict(i0=i, i1=i, pid=pid, name=m4.group(1), args=m4.group(2), ret=m4.group(3).strip()))
    return ev


def _hex(s):
    s = s.strip()
    if s == "NULL":
        return 0
    return int(s, 16) if s.startswith("0x") else int(s)


# ======================================================================================
# 5. Oracles
# ======================================================================================
class V(list):
    """violation collector for one run: list of (key, desc)"""

    def add(self, key, desc):
        if not any(k == key for k, _ in self):
            self.append((key, desc))


def classify_allocs(rep):
    """Walk the allocator log in order.  -> per ordinal dict(block, closure, tls, values) where each
    is a record dict(addr,size,align,frees=[...]) / list of records; plus list of anomalies."""
    per = {}
    live = {}
    anomalies = []
    last_alloc = {}
    main = rep["main_tid"]
    tid2ord = {t: o for o, t in rep["tids"].items() if t}

    def slot(o):
        return per.setdefault(o, dict(block=None, closure=None, tls=None, values=[], other=[]))

    for e in rep["log"]:
        op = e["op"]
        if op == "a":
            rec = dict(addr=e["addr"], size=e["size"], align=e["align"], by=e["tid"], ctx=(e["ord"], e["gate"]), frees=[], what=None, ord=None)
            live[e["addr"]] = rec
            last_alloc[e["addr"]] = rec
            if e["gate"] == 1 and e["ord"] != 255:
                rec["what"], rec["ord"] = "closure", e["ord"]
                if slot(e["ord"])["closure"] is None:
                    slot(e["ord"])["closure"] = rec
                elif e["tid"] != main and e["tid"] in tid2ord:
                    # a spawned thread whose own spawn failed right after this gate: the allocation is its own
                    rec["what"], rec["ord"] = "unclassified", None
                else:
                    slot(e["ord"])["other"].append(rec)
            elif e["gate"] == 2 and e["ord"] != 255:
                rec["what"], rec["ord"] = "tls", e["ord"]
                if slot(e["ord"])["tls"] is None:
                    slot(e["ord"])["tls"] = rec
                else:
                    slot(e["ord"])["other"].append(rec)
            elif e["tid"] != main and e["gate"] == 30 and e["ord"] != 255 and tid2ord.get(e["tid"]) == e["ord"]:
                rec["what"], rec["ord"] = "value", e["ord"]
                slot(e["ord"])["values"].append(rec)
            else:
                rec["what"] = "unclassified"  # the join block is named by the next 'b' entry
        elif op == "b":
            rec = last_alloc.get(e["addr"])
            if rec is not None and rec["what"] == "value" and not rec["frees"]:
                # allocated by a spawned thread inside its body: it is the join block of a thread IT spawns
                slot(rec["ord"])["values"].remove(rec)
                rec["what"] = "unclassified"
            if rec is not None and rec["what"] == "unclassified":
                rec["what"], rec["ord"] = "block", e["ord"]
                slot(e["ord"])["block"] = rec
            else:
                anomalies.append(("block-announced-without-allocation", e))
        elif op == "f":
            rec = live.pop(e["addr"], None)
            if rec is None:
                anomalies.append(("free-of-unknown", e))
            else:
                rec["frees"].append(dict(by=e["tid"], ctx=(e["ord"], e["gate"]), size=e["size"], align=e["align"]))
        elif op in ("D", "F"):
            rec = last_alloc.get(e["addr"])
            if rec is not None:
                rec["frees"].append(dict(by=e["tid"], ctx=(e["ord"], e["gate"]), size=e["size"], align=e["align"], bad=op))
            else:
                anomalies.append(("foreign-free", e))
        elif op == "N":
            anomalies.append(("alloc-returned-null", e))
    unclassified = []
    for r in last_alloc.values():
        if r["what"] != "unclassified":
            continue
        if r["by"] != main and r["by"] in tid2ord:
            # made by a spawned thread outside any spawn it performs: memory of its own (its result value)
            r["what"], r["ord"] = "value", tid2ord[r["by"]]
            slot(r["ord"])["values"].append(r)
        else:
            unclassified.append(r)
    return per, anomalies, unclassified, tid2ord


def resource_checks(v, rep, specs, preds, ungated=False):
    """C06 per-allocation oracle (+ the F16 candidate).  specs: list of (type, panics, op);
    preds: model prediction per thread or None (ungated: any legal party accepted)."""
    per, anomalies, unclassified, _ = classify_allocs(rep)
    main = rep["main_tid"]
    for name, e in anomalies:
        if name in ("foreign-free", "free-of-unknown"):
            v.add("C06:heap:foreign-free", "free of %#x (%d bytes) by tid %d at gate %s which is no live allocation" % (e["addr"], e["size"], e["tid"], e["gate"]))
        elif name == "alloc-returned-null":
            v.add("C06:heap:alloc-failed", "allocator returned null for %d bytes" % e["size"])
    owner = {o_: t_ for o_, g_, t_ in rep["gt"] if g_ == 1}
    for o, (ty, panics, op) in enumerate(specs):
        panics = is_panic(panics)
        if rep["spawn"].get(o, (1, 0))[0] != 1:
            continue
        main = owner.get(o, rep["main_tid"])  # the handle owner of this thread (a spawned thread when nested)
        # a result whose destructor panics: when the runtime has to run it on the thread (handle dropped first) the thread
        # ends on the panic path although its closure returned
        dtor = ty in DTOR_PANIC_TYPES and not panics
        s = per.get(o)
        tid = rep["tids"].get(o, 0)
        if s is None or s["block"] is None:
            v.add("C05:conformance:no-join-block-announced", "thread %d: no allocation matches the block announced at SPAWN_BLOCK_ALLOCATED" % o)
            continue
        pred = preds[o] if preds else None

        def once(rec, res, want_party, want_gates, may_leak=False):
            good = [f for f in rec["frees"] if not f.get("bad")]
            bad = [f for f in rec["frees"] if f.get("bad")]
            if bad or len(good) > 1:
                f = (bad or good[1:])[0]
                v.add("C06:%s:freed-twice" % res, "thread %d (%s %s %s): %s at %#x freed again by tid %d after gate %s" %
                      (o, ty, "panics" if panics else "returns", op, res, rec["addr"], f["by"], GATE.get(f["ctx"][1], f["ctx"][1])))
            if not good:
                if not may_leak:
                    v.add("C06:%s:leaked" % res, "thread %d (%s %s %s): %s (%d bytes at %#x) never freed" %
                          (o, ty, "panics" if panics else "returns", op, res, rec["size"], rec["addr"]))
                return
            f = good[0]
            if (f["size"], f["align"]) != (rec["size"], rec["align"]):
                v.add("C06:%s:freed-with-wrong-layout" % res, "thread %d: %s allocated as (%d,%d) freed as (%d,%d)" %
                      (o, res, rec["size"], rec["align"], f["size"], f["align"]))
            party = "handle" if f["by"] == main else ("thread" if f["by"] == tid else "other")
            if party != want_party and want_party != "any":
                v.add("C06:%s:freed-by-wrong-party" % res, "thread %d (%s %s %s): %s freed by the %s (tid %d, after %s), the model says the %s" %
                      (o, ty, "panics" if panics else "returns", op, res, party, f["by"], GATE.get(f["ctx"][1], f["ctx"][1]), want_party))
            elif want_gates and (f["ctx"][0], f["ctx"][1]) not in [(o, g) for g in want_gates]:
                v.add("C06:%s:freed-by-wrong-party" % res, "thread %d (%s %s %s): %s freed after gate %s of thread %d, the model says after %s" %
                      (o, ty, "panics" if panics else "returns", op, res, GATE.get(f["ctx"][1], f["ctx"][1]), f["ctx"][0],
                       "/".join(GATE[g] for g in want_gates)))

        # join block
        if pred is not None:
            g = pred["block_free_by"]
            once(s["block"], "join-block", "handle" if g in (12, 22) else "thread", [g])
        elif op in JOIN_OPS:
            once(s["block"], "join-block", "handle", [12])
        else:
            # ungated drop: whoever lost the CAS frees, both legal; consistency of party and gate
            good = [f for f in s["block"]["frees"] if not f.get("bad")]
            if good and good[0]["by"] == main:
                once(s["block"], "join-block", "handle", [22])
            else:
                once(s["block"], "join-block", "thread", [34, 43] if dtor else ([43] if panics else [34]))
        # TLS block
        if s["tls"] is None:
            v.add("C05:conformance:no-tls-allocation", "thread %d: no allocation between SPAWN_STACK_MAPPED and SPAWN_BEFORE_CLONE" % o)
        else:
            once(s["tls"], "tls", "thread", [35, 40] if dtor else ([40] if panics else [35]))
        # closure box: freed by the thread after its TLS on return; the documented leak on panic
        if s["closure"] is None:
            v.add("C05:conformance:no-closure-allocation", "thread %d: no allocation between SPAWN_BLOCK_ALLOCATED and SPAWN_STACK_MAPPED" % o)
        else:
            once(s["closure"], "closure", "thread", [35], may_leak=panics or (dtor and op not in JOIN_OPS))
        # heap memory owned by the result value
        joined_some = (op in JOIN_OPS and not panics)
        for rec in s["values"]:
            good = [f for f in rec["frees"] if not f.get("bad")]
            if joined_some:
                once(rec, "result-heap", "handle", None)
            elif not good and dtor:
                pass  # the destructor did run and panicked half way: what the value owned stays behind, the value's own business
            elif not good and not panics and op not in JOIN_OPS:
                v.add("C06:drop-unjoined:result-not-dropped",
                      "thread %d returned a %s; its handle was dropped, not joined, and nobody ran the value's destructor - "
                      "%d bytes at %#x allocated by the thread stay live for ever" % (o, ty, rec["size"], rec["addr"]))
            else:
                once(rec, "result-heap", "any", None)
        if not panics and ty in HEAP_TYPES and not s["values"]:
            v.add("C05:conformance:no-result-allocation", "thread %d: a %s result without a heap allocation in the closure" % (o, ty))
        for rec in s["other"]:
            v.add("C06:heap:unexpected-allocation", "thread %d: extra allocation of %d bytes after gate %s" % (o, rec["size"], rec["ctx"][1]))
    for rec in unclassified:
        if not rec["frees"]:
            v.add("C06:heap:leaked", "allocation of %d bytes (tid %d, after gate %s of thread %s) not attributable to a thread resource and never freed" %
                  (rec["size"], rec["by"], rec["ctx"][1], rec["ctx"][0]))
    # poison: a write into freed (quarantined) memory
    if rep["poison"] and rep["poison"][1]:
        for pb in rep["poisonbad"][:4]:
            what, o_ = "heap", None
            for o, s in per.items():
                for res in ("block", "tls", "closure"):
                    rec = s[res]
                    if rec and rec["addr"] == pb["addr"]:
                        what, o_ = {"block": "join-block", "tls": "tls", "closure": "closure"}[res], o
            v.add("C06:%s:written-after-free" % what,
                  "thread %s: byte %d of the freed %s (%d bytes at %#x) was overwritten with %#04x after the free (offset 4..8 is the exit word the kernel clears on thread exit)" %
                  (o_, pb["off"], what, pb["size"], pb["addr"], pb["byte"]))
    # results with a counting destructor: destructor runs == results made, exactly, per thread; none for a value nobody made
    for o, (ty, panics, op) in enumerate(specs):
        if ty != "tok" or rep["spawn"].get(o, (1, 0))[0] != 1:
            continue
        made, drops = rep["tok"].get(o, (0, 0))
        want = 0 if is_panic(panics) else 1
        if made != want:
            v.add("C05:closure:result-made-%d-times" % made, "thread %d: its closure made %d results, expected %d" % (o, made, want))
        elif drops != made:
            v.add("C06:result:destructor-runs-differ-from-results-made",
                  "thread %d (tok %s %s): %d result made, its destructor ran %d times by the end" % (o, "panics" if is_panic(panics) else "returns", op, made, drops))
    tt = rep.get("toktotal")
    if tt and (tt[2] or tt[3]):
        v.add("C06:result:destructor-ran-on-a-value-nobody-made",
              "a Token destructor ran %d times on id 0 and %d times on a Token with live == false: no closure ever made such a value - the join block's result slot "
              "was taken for Some(value) without anybody having stored one" % (tt[2], tt[3]))
    # red zones: a write before / past the end of a block
    for cb in rep["canarybad"][:4]:
        what, o_ = "heap", None
        for o, s in per.items():
            for res in ("block", "tls", "closure"):
                rec = s[res]
                if rec and rec["addr"] == cb["addr"]:
                    what, o_ = {"block": "join-block", "tls": "tls", "closure": "closure"}[res], o
            for rec in s["values"]:
                if rec["addr"] == cb["addr"]:
                    what, o_ = "result-heap", o
        v.add("C06:%s:written-out-of-bounds" % what,
              "thread %s: the red zone %s the %s (%d bytes at %#x%s) was overwritten: byte %d of it reads %#04x - somebody wrote %s the allocation" %
              (o_, "after" if cb["rear"] else "before", what, cb["size"], cb["addr"],
               (", result type %s" % specs[o_][0]) if o_ is not None and o_ < len(specs) else "", cb["off"], cb["byte"],
               "past the end of" if cb["rear"] else "in front of"))
        if what == "join-block" and cb["rear"]:
            v.add("C05:join:result-written-outside-join-block",
                  "thread %s (result type %s): the thread stored its result partly past the end of the %d-byte join block (red zone byte %d spoiled): "
                  "the block is too small for a value of this alignment" % (o_, specs[o_][0] if o_ is not None and o_ < len(specs) else "?", cb["size"], cb["off"]))
    if rep["canary"] and rep["canary"][1] and not rep["canarybad"]:
        v.add("C06:heap:written-out-of-bounds", "%d red-zone bytes around allocations were overwritten" % rep["canary"][1])
    c = rep["counters"] or {}
    if c.get("log_lost") or c.get("live_lost"):
        v.add("MACHINERY:log-overflow", "allocator log or live table overflowed")
    return per


def value_checks(v, rep, specs, preds, tag_of=lambda o: o):
    """C05 oracle on what join returned and what the closure did."""
    for o, (ty, panics, op) in enumerate(specs):
        panics = is_panic(panics)
        if op == "f":
            continue  # a spawn that is expected to fail (injection): judged by the caller
        if rep["spawn"].get(o, (1, 0))[0] != 1:
            v.add("C05:spawn:failed-without-fault", "spawn %d returned Err although no system call failed" % o)
            continue
        if o in rep["tids"] and rep["tids"][o] in (0, rep["main_tid"]) and (runs_ := rep["runs"].get(o)) and runs_["runs"]:
            v.add("C05:closure:not-on-a-new-thread", "thread %d: the closure ran on tid %d (main thread is %d)" % (o, rep["tids"][o], rep["main_tid"]))
        runs = rep["runs"].get(o)
        if runs is None or runs["runs"] != 1:
            n = runs["runs"] if runs else 0
            v.add("C05:closure:ran-%d-times" % n, "thread %d (%s): closure body ran %d times" % (o, ty, n))
        elif runs["effect"] != effect_val(tag_of(o)):
            v.add("C05:closure:effect-lost", "thread %d: the closure's write is not in memory after the thread is gone" % o)
        if op in JOIN_OPS:
            j = rep["join"].get(o)
            if j is None:
                v.add("C05:join:hangs", "thread %d: join did not return" % o)
                continue
            want_none = panics
            if preds:
                want_none = preds[o]["result"] == "none"
            if j["kind"] == "none" and not want_none:
                v.add("C05:join:none-without-panic", "thread %d (%s): join returned None, the closure returned normally" % (o, ty))
            elif j["kind"] == "some" and want_none:
                v.add("C05:join:some-after-panic", "thread %d (%s): join returned Some after the closure panicked" % (o, ty))
            elif j["kind"] == "some" and j["digest"] != digest(ty, tag_of(o)):
                v.add("C05:join:wrong-value", "thread %d: join returned a %s with digest %#x, the closure returned one with %#x" %
                      (o, ty, j["digest"], digest(ty, tag_of(o))))
            if j["runs"] != 1:
                v.add("C05:join:returned-before-thread-finished", "thread %d: when join returned the closure body had run %d times" % (o, j["runs"]))
            elif j["effect"] != effect_val(tag_of(o)):
                v.add("C05:join:effect-not-visible", "thread %d: the closure's plain write was not visible right after join returned" % o)
    for o, g, word in rep["early"]:
        if g == 11:
            v.add("C05:join:returned-before-thread-finished",
                  "thread %d: join's wait on the exit word was over (JOIN_BEFORE_READ_RESULT reached) while the word still read %#x - the kernel had not "
                  "reported the thread's exit, the thread could still be running" % (o, word))
        else:
            v.add("C05:drop:wait-returned-before-thread-finished",
                  "thread %d: the handle drop's wait on the exit word was over (DROP_BEFORE_FREE_BLOCK reached) while the word still read %#x" % (o, word))
    if rep["early_total"] and not rep["early"]:
        v.add("C05:join:returned-before-thread-finished", "%d waits on an exit word ended while the word was not 0" % rep["early_total"])
    if rep["alive"]:
        v.add("C06:thread:not-exited", "%d spawned threads still exist at the end of the scenario" % rep["alive"])


def strace_checks(v, rep, specs, preds, events, per=None):
    """System-call level oracle: stack mapped by spawn is unmapped exactly once, by the thread itself,
    right before its exit; join returned => that munmap is already in the log."""
    main = rep["main_tid"]
    mmaps = [e for e in events if e["name"] == "mmap" and e["ret"] and e["ret"].startswith("0x")]
    clones = [e for e in events if e["name"] == "clone" and e["ret"] and re.match(r"^\d+", e["ret"])]
    by_child = {int(re.match(r"^(\d+)", e["ret"]).group(1)): e for e in clones}
    for o, (ty, panics, op) in enumerate(specs):
        panics = is_panic(panics)
        if op == "f" or rep["spawn"].get(o, (1, 0))[0] != 1:
            continue
        tid = rep["tids"].get(o, 0)
        ce = by_child.get(tid)
        if not tid or ce is None:
            v.add("C05:conformance:no-clone-seen", "thread %d: no clone in the system-call log returned its tid" % o)
            continue
        m = re.search(r"child_stack=(0x[0-9a-f]+)", ce["args"])
        sp = int(m.group(1), 16) if m else 0
        rng = None
        for e in mmaps:
            if e["i0"] < ce["i0"] and e["pid"] == ce["pid"]:
                a = e["args"].split(",")
                size = int(a[1])
                start = int(e["ret"], 16)
                if start < sp <= start + size:
                    rng = (start, size)
        if rng is None or rng[1] != STACK_SZ:
            v.add("C05:conformance:no-stack-mmap-seen", "thread %d: child_stack %#x is in no mapping made by spawn" % (o, sp))
            continue
        m2 = re.search(r"child_tidptr=(0x[0-9a-f]+)", ce["args"])
        blk = rep["blocks"].get(o, 0)
        if m2 and blk and int(m2.group(1), 16) != blk + 4:
            v.add("C05:conformance:clear-tid-address-outside-join-block", "thread %d: child_tidptr %s, join block at %#x" % (o, m2.group(1), blk))
        un = []
        for e in events:
            if e["name"] == "munmap" and e["i0"] > ce["i0"]:
                a = e["args"].split(",")
                try:
                    st, sz = _hex(a[0]), int(a[1])
                except ValueError:
                    continue
                if st < rng[0] + rng[1] and rng[0] < st + sz and not (st == 1):
                    # a later spawn may have been given the same range again: stop at the next mmap of it
                    later = [m_ for m_ in mmaps if m_["i0"] > ce["i0"] and m_["i0"] < e["i0"] and int(m_["ret"], 16) == rng[0]]
                    if later and len(un) >= 1:
                        break
                    un.append((e, st, sz))
        desc = "thread %d (%s %s %s): stack %#x+%#x" % (o, ty, "panics" if panics else "returns", op, rng[0], rng[1])
        if not un:
            v.add("C06:stack:not-unmapped", desc + " never unmapped")
            continue
        if len(un) > 1:
            v.add("C06:stack:unmapped-twice", desc + " unmapped %d times (tids %s)" % (len(un), [u[0]["pid"] for u in un]))
        e, st, sz = un[0]
        if (st, sz) != rng:
            v.add("C06:stack:unmapped-wrong-range", desc + " but munmap(%#x, %#x)" % (st, sz))
        if e["pid"] != tid:
            v.add("C06:stack:freed-by-wrong-party", desc + " unmapped by tid %d, not by the thread itself (%d)" % (e["pid"], tid))
        if e["ret"] != "0":
            v.add("C06:stack:not-unmapped", desc + " munmap failed: " + str(e["ret"]))
        after = [x for x in events if x["pid"] == tid and x["i0"] > e["i0"]]
        if not after or after[0]["name"] != "exit":
            v.add("C06:stack:thread-runs-after-unmap", desc + ": after its munmap the thread does %s, not exit" % (after[0]["name"] if after else "nothing"))
        # while it lived the thread touched the stack only... (nothing to check); reset of the clear-tid address
        resets = [x for x in events if x["pid"] == tid and x["name"] == "set_tid_address"]
        if per is not None and resets and per.get(o) and per[o]["block"]:
            # a thread resets its clear-tid address only on its own exit path, when it has to free its own join block
            good = [f for f in per[o]["block"]["frees"] if not f.get("bad")]
            if not good or good[0]["by"] != tid:
                v.add("C05:exit-wake:clear-tid-reset-by-thread-that-keeps-its-join-block",
                      "thread %d (tid %d) called set_tid_address(NULL) although its join block is freed by its handle owner: the kernel will not "
                      "clear its exit word, whoever waits for this thread waits for ever" % (o, tid))
        if preds:
            if preds[o]["reset_tid"] and not resets:
                v.add("C05:conformance:no-set-tid-address", "thread %d: the model trace resets the clear-tid address, the thread made no set_tid_address call" % o)
            if not preds[o]["reset_tid"] and resets:
                v.add("C05:conformance:unexpected-set-tid-address", "thread %d: set_tid_address although the thread won the flag" % o)
        # join returned => munmap (and exit) already logged
        if op in JOIN_OPS:
            mk = [x for x in events if x["name"] == "munmap" and x["args"].startswith("0x1, %d" % (0x1000 + o * 16 + 2))]
            if mk:
                if not (e["i1"] is not None and e["i1"] < mk[0]["i0"]):
                    v.add("C05:join:returned-before-thread-finished",
                          desc + ": join returned (log line %d) before the thread unmapped its stack (line %s)" % (mk[0]["i0"], e["i1"]))
                ex = [x for x in events if x["pid"] == tid and x["name"] == "exit"]
                if not ex or ex[0]["i0"] > mk[0]["i0"]:
                    v.add("C05:join:returned-before-thread-finished", desc + ": join returned before the thread's exit call")
    # end state: no stack range still mapped
    for o in rep["tids"]:
        pass
    for e in events:
        if e["name"] == "-signal" or e["name"] == "+killed":
            v.add("C05:probe:crashed", "signal in the system-call log: " + e["args"][:120])


def futex_scan(rep, events):
    """Every FUTEX_WAIT on an exit word (join block + 4) in the log: is its timeout argument NULL?"""
    words = {b + 4: o for o, b in rep["blocks"].items()}
    res = dict(untimed=0, timed=0, timed_examples=[])
    for e in events:
        if e["name"] != "futex":
            continue
        a = [x.strip() for x in e["args"].split(",", 3)]
        if len(a) < 4 or not a[1].startswith("FUTEX_WAIT"):
            continue
        try:
            addr = _hex(a[0])
        except ValueError:
            continue
        if addr not in words:
            continue
        if a[3].startswith("NULL"):
            res["untimed"] += 1
        else:
            res["timed"] += 1
            if len(res["timed_examples"]) < 2:
                res["timed_examples"].append("futex(%s)" % e["args"][:100])
    return res


def maps_checks(v, rep):
    """Without strace: the mapped size must not have grown by a thread stack."""
    if not rep["maps0"] or not rep["maps1"]:
        return
    b0 = sum(b - a for a, b, _ in rep["maps0"])
    b1 = sum(b - a for a, b, _ in rep["maps1"])
    if b1 - b0 >= STACK_SZ:
        v.add("C06:stack:not-unmapped", "mapped bytes grew by %#x over the scenario (a thread stack is %#x)" % (b1 - b0, STACK_SZ))
    if rep["end"] and rep["end"]["tasks"] != 1:
        v.add("C06:thread:not-exited", "/proc/self/task lists %d threads at the end" % rep["end"]["tasks"])


def crash_check(v, res, rep, specs=None):
    if res["timed_out"] or res["rc"] == -signal.SIGALRM:
        # the main thread sits in a handle operation that never returns (probe-side alarm or parent's limit)
        tail = [l for l in res["out"].splitlines() if not l.startswith(("maps", "a ", "gt "))][-3:]
        only_drops = bool(specs) and all(op in ("d", "e", "l", "x") for _t, _p, op in specs)
        after_panic = bool(specs) and any(is_panic(p_) for _t, p_, _o in specs)
        v.add("C05:drop:hangs" if only_drops else ("C05:join:hangs-after-panic" if after_panic else "C05:join:hangs"),
              "a handle operation never returned (%s); last output: %s" %
              ("probe-side alarm" if not res["timed_out"] else "parent-side time limit", " | ".join(tail)))
        return True
    if rep["usage"]:
        v.add("MACHINERY:usage", "probe rejected its arguments")
        return True
    if rep["stuck"]:
        want = rep["stuck"]["want"]
        w = rep["stuck"]["waiter"]
        if rep["stuck"]["why"] != "gate-not-reached":
            v.add("C05:conformance:" + rep["stuck"]["why"], "gate %s: %s" % (GATE.get(w[1], w[1]), rep["stuck"]["why"]))
        elif want[0] == "end":
            v.add("C05:conformance:unexpected-" + GATE.get(w[1], str(w[1])),
                  "the real threads do not follow the model trace: the schedule was used up, yet thread %d arrives at gate %s" % (w[0], GATE.get(w[1], w[1])))
        else:
            name = GATE.get(want[1], str(want[1]))
            v.add("C05:conformance:" + name,
                  "the real threads cannot follow the model trace: schedule entry %d (thread %s gate %s) was never reached; "
                  "a thread waits at gate %s of thread %d instead" % (rep["stuck"]["pos"], want[0], name, GATE.get(w[1], w[1]), w[0]))
        return True
    if res["rc"] != 0 or not rep["done"]:
        v.add("C05:probe:crashed", "probe ended with status %s without completing its report; stderr: %s; last output: %s" %
              (res["rc"], res["err"].strip()[-200:], " | ".join(res["out"].splitlines()[-2:])))
        return True
    return False


# ======================================================================================
# 6. Cases
# ======================================================================================
def spec_str(specs):
    return ",".join("%s:%s:%s" % (ty, kind_letter(p), op) for ty, p, op in specs)


def eval_gated(binp, case):
    """case: dict(kind='gated', specs=[(ty,panics,op)], order, trace=[(o,g,k)], strace, delay_us)"""
    specs = [tuple(s) for s in case["specs"]]
    trace = [tuple(x) for x in case["trace"]]
    cfg = Cfg([(is_panic(p), op) for _, p, op in specs], case.get("order", "f"))
    # re-derive the prediction from the model along the trace
    st = cfg.init()
    for lab in trace:
        nxt = [n for l, n, _ in successors(cfg, st, True) if l == lab]
        if not nxt:
            raise RuntimeError("trace is not a trace of the model: %r at %r" % (trace, lab))
        st = nxt[0]
    preds = predict(cfg, st)
    argv = ["gated", str(case.get("timeout_ms", 4000)), str(case.get("delay_us", 0)), case.get("order", "f"), spec_str(specs), sched_string(trace)]
    res = run_probe(binp, argv, strace=case.get("strace", False), timeout=30)
    rep = parse_report(res["out"])
    v = V()
    info = dict(argv=argv, conformant=False, outcome="")
    if crash_check(v, res, rep, specs):
        info["outcome"] = "not-followed"
        if rep["stuck"]:
            info["gt"] = rep["gt"]
        return v, info, rep
    got = [(o, g) for o, g, _t in rep["gt"]]
    want = [(o, g) for o, g, _k in trace]
    if got != want:
        v.add("C05:conformance:order-differs", "gates were passed in the order %r, the schedule says %r" % (got, want))
    else:
        info["conformant"] = True
    value_checks(v, rep, specs, preds)
    resource_checks(v, rep, specs, preds)
    if case.get("strace"):
        ev = parse_strace(res["strace"])
        strace_checks(v, rep, specs, preds, ev)
        info["futex_waits"] = futex_scan(rep, ev)
    maps_checks(v, rep)
    info["outcome"] = "/".join("%s:%s:%s->%s,block@%s%s" % (specs[i][0], kind_letter(specs[i][1]), specs[i][2], preds[i]["result"],
                                                          GATE[preds[i]["block_free_by"]].split("_")[0].lower(),
                                                          ",reset-tid" if preds[i]["reset_tid"] else "") for i in range(len(specs)))
    info["settle_timeouts"] = rep["settle_timeouts"]
    return v, info, rep


def eval_free(binp, case):
    """ungated: n threads alive at the same time, then all joined/dropped"""
    specs = [tuple(s) for s in case["specs"]]
    argv = ["free", "5000", case.get("order", "f"), spec_str(specs)]
    res = run_probe(binp, argv, strace=case.get("strace", False), timeout=30)
    rep = parse_report(res["out"])
    v = V()
    info = dict(argv=argv, outcome="free:n=%d" % len(specs))
    if crash_check(v, res, rep, specs):
        return v, info, rep
    n = len(specs)
    if rep["concurrent"] != (n, n + 1):
        v.add("C05:spawn:threads-not-concurrently-live", "%d threads spawned, %s started / tasks listed while all were held" % (n, rep["concurrent"]))
    value_checks(v, rep, specs, None)
    per = resource_checks(v, rep, specs, None, ungated=True)
    if case.get("strace"):
        ev = parse_strace(res["strace"])
        strace_checks(v, rep, specs, None, ev, per=per)
        info["futex_waits"] = futex_scan(rep, ev)
    maps_checks(v, rep)
    return v, info, rep


def find_lasso(seq, max_period=8):
    """smallest (start, period) with seq[i] == seq[i+period] for all i >= start, start <= len/2"""
    n = len(seq)
    for p in range(1, max_period + 1):
        if n < 4 * p:
            break
        i = n - p - 1
        while i >= 0 and seq[i] == seq[i + p]:
            i -= 1
        start = i + 1
        if start <= n // 2:
            return start, p
    return None


def eval_hist(binp, case):
    """back-to-back history: word of letters (type, panics, op) repeated `reps` times in one process"""
    specs = [tuple(s) for s in case["specs"]]
    reps = case["reps"]
    log = case.get("log", False)
    argv = ["hist", "3000", str(reps), "1" if log else "0", spec_str(specs)]
    res = run_probe(binp, argv, strace=bool(case.get("strace")) and log, timeout=60)
    rep = parse_report(res["out"])
    v = V()
    info = dict(argv=argv, outcome="hist")
    if case.get("expect_main_panic"):
        # isolated process: main drops the finished handle, the result's destructor panics on the main thread
        if res["timed_out"] or res["rc"] == -signal.SIGALRM:
            v.add("C05:drop:hangs", "dropping the finished handle on the main thread (result destructor panics) never returned")
        elif res["rc"] == 1 and "Main thread panicked" in res["err"] and "destructor panics" in res["err"]:
            info["outcome"] = "hist:main-thread-dropper:result-destructor-panic-ends-process-with-status-1"
        else:
            v.add("C05:probe:crashed", "main-thread dropper with a panicking result destructor: expected the panic exit (status 1), got status %s; stderr: %s" %
                  (res["rc"], res["err"].strip()[-200:]))
        return v, info, rep
    if crash_check(v, res, rep, specs):
        return v, info, rep
    if rep["stillrunning"]:
        # observation only (op T): the closure of that thread never comes back, so neither C05 nor C06 say anything about it
        info["outcome"] = "hist:observation:thread-blocked-in-%s-after-another-thread-panicked-inside-a-print-macro" % (
            "println" if specs[rep["stillrunning"][0] % len(specs)][1] in ("P", "o") else "eprintln")
        return v, info, rep
    h = rep["hist"]
    n = len(specs)
    if h["hangs"]:
        v.add("C05:join:hangs", "%d threads of the history never went away" % h["hangs"])
    if h["bad_runs"]:
        v.add("C05:closure:ran-not-once", "%d threads of the history ran their closure not exactly once" % h["bad_runs"])
    if h["bad_join"]:
        v.add("C05:join:wrong-value", "%d joins of the history returned the wrong Some/None or lost the closure's write" % h["bad_join"])
    all_specs = specs * reps
    tt = rep.get("toktotal")
    if tt and not log:
        want = reps * sum(1 for ty_, p_, _o in specs if ty_ == "tok" and not is_panic(p_))
        if tt[2] or tt[3]:
            v.add("C06:result:destructor-ran-on-a-value-nobody-made", "history %s x %d: %d destructor runs on a Token with id 0, %d with live == false" %
                  (spec_str(specs), reps, tt[2], tt[3]))
        if tt[0] != want or tt[1] != tt[0]:
            v.add("C06:result:destructor-runs-differ-from-results-made", "history %s x %d: %d results expected, %d made, %d destructor runs" %
                  (spec_str(specs), reps, want, tt[0], tt[1]))
    if log:
        value_checks(v, rep, all_specs, None)
        resource_checks(v, rep, all_specs, None, ungated=True)
        maps_checks(v, rep)
        if case.get("strace"):
            ev = parse_strace(res["strace"])
            strace_checks(v, rep, all_specs, None, ev)
            info["futex_waits"] = futex_scan(rep, ev)
            info["outcome"] = "hist:kernel-timed-join"
    # fingerprint analysis: documented leak = closure box of each panicked thread
    leak_specs = case.get("closure_sizes")  # {type: (size, align)} learned from logged runs
    f16 = any((ty in HEAP_TYPES) and not is_panic(p) and op in ("d", "e", "l", "x") for ty, p, op in specs)
    fps = rep["fp"]
    if len(fps) == reps and reps >= 8 and not f16:
        per_rep = [(leak_specs or {}).get(ty) for ty, p, op in specs if is_panic(p)]
        if any(x is None for x in per_rep):
            info["outcome"] = "hist:no-closure-size"
            return v, info, rep
        dn = len(per_rep)
        db = sum(s for s, a in per_rep)
        dh = sum(mix(s, a) for s, a in per_rep) & M64
        adj = []
        for i, f in enumerate(fps):
            k = i + 1
            adj.append((f["live_n"] - dn * k, f["live_bytes"] - db * k, (f["live_hash"] - dh * k) & M64, f["tasks"]) +
                       (() if dn else (f["maps"], f["vm"])))
        lasso = find_lasso(adj)
        info["lasso"] = lasso
        if lasso is None:
            grow = [k for k in range(len(adj[0])) if adj[-1][k] != adj[len(adj) // 2][k]]
            names = ("live-count", "live-bytes", "live-multiset", "tasks", "maps-lines", "vmsize-pages")
            v.add("C06:history:fingerprint-grows",
                  "history %s x %d: the resource fingerprint does not recur; components still changing in the second half: %s; after rep 1: %r, middle: %r, last: %r" %
                  (spec_str(specs), reps, [names[k] for k in grow], adj[0], adj[len(adj) // 2], adj[-1]))
        if dn:
            # mapped memory may only grow with the leaked closures
            leaked = db * reps + 16 * dn * reps
            vm_allow = 2 * leaked // 4096 + 48
            if fps[-1]["vm"] - fps[0]["vm"] > vm_allow or fps[-1]["maps"] - fps[0]["maps"] > 3:
                v.add("C06:history:fingerprint-grows", "history %s x %d: VmSize grew by %d pages / maps by %d lines, the leaked closures explain at most %d pages" %
                      (spec_str(specs), reps, fps[-1]["vm"] - fps[0]["vm"], fps[-1]["maps"] - fps[0]["maps"], vm_allow))
        info["outcome"] = "hist:lasso" if lasso else "hist:no-lasso"
    elif f16:
        info["outcome"] = "hist:f16-leak-expected"
    return v, info, rep


def eval_fault(binp, case):
    """spawn loop with one injected system-call failure"""
    n = case["n"]
    inject = case["inject"]  # e.g. "clone:error=EAGAIN:when=2"
    which = case["which"]    # "clone" | "mmap"
    victim = case["victim"]  # index of the spawn whose call fails
    res = run_probe(binp, ["fault", str(n)], inject=inject, timeout=case.get("timeout", 5.0))
    rep = parse_report(res["out"])
    v = V()
    info = dict(argv=["fault", str(n)], inject=inject, outcome="fault:%s" % which)
    ev = parse_strace(res["strace"])
    injected = [e for e in ev if e["ret"] and "INJECTED" in e["ret"]]
    if not injected:
        v.add("MACHINERY:no-injection", "strace did not inject " + inject)
        return v, info, rep
    sp = rep["spawn"].get(victim)
    errno_want = 11 if which == "clone" else 12
    if sp is None:
        v.add("C05:probe:crashed", "no result line for spawn %d under %s" % (victim, inject))
    elif sp[0] == 1:
        v.add("C05:spawn:ok-after-failed-%s" % which,
              "spawn #%d returned Ok(handle) although its %s failed (%s)" % (victim, which, injected[0]["ret"]))
    elif sp[1] != errno_want:
        v.add("C05:spawn:wrong-error", "spawn #%d returned Err with errno %d, the failed %s reported %d" % (victim, sp[1], which, errno_want))
    if res["timed_out"]:
        last = rep["joining"][-1] if rep["joining"] else None
        v.add("C05:join:hangs", "with %s: join of thread #%s never returned (parent watchdog %.0f s); output ends: %s" %
              (inject, last, case.get("timeout", 5.0), " | ".join(res["out"].splitlines()[-3:])))
        info["outcome"] += ":hang"
        keep_evidence(case["name"], res)
        return v, info, rep
    if res["rc"] != 0 or not rep["done"]:
        v.add("C05:probe:crashed", "probe ended with status %s under %s; stderr %s" % (res["rc"], inject, res["err"][-200:]))
        keep_evidence(case["name"], res)
        return v, info, rep
    specs = [("u64", False, "j")] * n
    for o in range(n):
        if rep["spawn"].get(o, (0, 0))[0] == 1:
            j = rep["join"].get(o)
            if j is None or j["kind"] != "some" or j["digest"] != digest("u64", o):
                v.add("C05:join:wrong-value", "under %s: join of thread #%d returned %r" % (inject, o, j))
    # resources of the failed spawn: everything allocated for it must be gone again
    per, anomalies, unclassified, _ = classify_allocs(rep)
    s = per.get(victim)
    leaked = []
    if s:
        for res_ in ("block", "closure", "tls"):
            rec = s[res_]
            if rec and not rec["frees"]:
                leaked.append("%s(%d bytes)" % (res_, rec["size"]))
    if which == "clone" and sp is not None and sp[0] == 0:
        # the stack mapped for the thread that never came to be must be unmapped again
        main = rep["main_tid"]
        stacks = [e for e in ev if e["pid"] == main and e["name"] == "mmap" and e["ret"] and e["ret"].startswith("0x")
                  and len(e["args"].split(",")) > 1 and e["args"].split(",")[1].strip() == str(STACK_SZ)]
        if victim < len(stacks):
            st = int(stacks[victim]["ret"], 16)
            un = [e for e in ev if e["name"] == "munmap" and e["i0"] > stacks[victim]["i0"] and e["args"].startswith("%#x, %d" % (st, STACK_SZ)) and e["ret"] == "0"]
            nxt = [e for e in stacks[victim + 1:] if int(e["ret"], 16) == st]
            if not un or (nxt and un[0]["i0"] > nxt[0]["i0"]):
                leaked.append("stack mapping(%d bytes)" % STACK_SZ)
    if leaked and sp is not None and sp[0] == 0:
        v.add("C06:spawn-failed-%s:resources-leaked" % which,
              "spawn #%d returned Err after its %s failed, but what it had set up before is never released: %s%s" %
              (victim, which, ", ".join(leaked), " (so the closure and what it captured are never dropped)" if any(l.startswith("closure") for l in leaked) else ""))
    info["outcome"] += ":err" if sp and sp[0] == 0 else ":ok"
    if v:
        keep_evidence(case["name"], res)
    return v, info, rep


def eval_race(binp, case):
    """SAMPLED gate-aligned race sweep: `rounds` threads, handle owner parked at gate gh, thread at gate
    gt, both released at once with a swept skew; the existing per-allocation and value oracles are applied
    to every batch of the probe's report."""
    spec = tuple(case["specs"][0])
    rounds, batch = case["rounds"], case.get("batch", 200)
    argv = ["race", "3000", str(rounds), str(batch), str(case["gh"]), str(case["gt"]), str(case.get("hold_h", 0)),
            str(case.get("maxskew", 64)), spec_str([spec])]
    res = run_probe(binp, argv, strace=False, timeout=120)
    v = V()
    info = dict(argv=argv, outcome="race:%s-x-%s" % (GATE[case["gh"]], GATE[case["gt"]]), threads=0, aligned=0)
    text = res["out"]
    head, _, rest = text.partition("\nbatch ")
    whole = parse_report(text)
    if crash_check(v, res, whole, [spec]):
        return v, info, whole
    chunks = rest.split("\nbatch ")
    aligned = unaligned = 0
    for ch in chunks:
        first, _, body = ch.partition("\n")
        w = first.split()
        start, nb = int(w[0]), int(w[1])
        body = body.split("\nendbatch")[0]
        rep_ = parse_report(head + "\n" + body + "\n")
        m = re.search(r"^race (\d+) (\d+)$", body, re.M)
        if m:
            aligned, unaligned = int(m.group(1)), int(m.group(2))
        specs = [spec] * nb
        rep_["done"] = True
        value_checks(v, rep_, specs, None, tag_of=lambda o, s0=start: s0 + o)
        resource_checks(v, rep_, specs, None, ungated=True)
        c = rep_["counters"] or {}
        if rep_["end"] and rep_["base"]:
            if rep_["end"]["tasks"] != 1:
                v.add("C06:thread:not-exited", "/proc/self/task lists %d threads after a batch of the race sweep" % rep_["end"]["tasks"])
            if (rep_["end"]["vm"] - rep_["base"]["vm"]) * 4096 >= STACK_SZ:
                v.add("C06:stack:not-unmapped", "VmSize grew by %d pages over %d threads of the race sweep (a thread stack is %d pages)" %
                      (rep_["end"]["vm"] - rep_["base"]["vm"], start + nb, STACK_SZ // 4096))
        info["threads"] += nb
    maps_checks(v, whole)
    info["aligned"], info["unaligned"] = aligned, unaligned
    if aligned < 0.8 * max(1, aligned + unaligned):
        info["outcome"] += ":poorly-aligned"
    # the violations found here come from a SAMPLED phase: say so in the description
    v2 = V()
    for k, d in v:
        v2.append((k, "[sampled race sweep %s x %s, %s, skew -%d..+%d pauses] %s" %
                   (GATE[case["gh"]], GATE[case["gt"]], spec_str([spec]), case.get("maxskew", 64), case.get("maxskew", 64), d)))
    return v2, info, whole


def run_sched(binp, specs, order, sched, strace=False, inject=None, nofutex=False, timeout_ms=4000):
    argv = ["gated", str(timeout_ms), "0", order + ("n" if nofutex else ""), spec_str(specs), sched_string(sched)]
    res = run_probe(binp, argv, strace=strace, inject=inject, timeout=30)
    return argv, res, parse_report(res["out"])


def eval_tmo(binp, case):
    """Only run when the fault-free logs show a wait on an exit word WITH a timeout: then ETIMEDOUT is a legal
    kernel answer for it.  The model trace `trace` has the handle owner go to sleep on the exit word (kind b)
    while the thread is parked at a gate; that wait is answered ETIMEDOUT by strace injection and the thread stays
    parked until after the injected return.
      A  legal order: the handle owner must wait again; arriving at the gate after the wait with the exit word
         still 1 means the wait's return was taken for the thread's exit;
      B  (only if A shows that) the handle owner's remaining steps are scheduled first - what join/drop then do
         to a thread that is still running, judged by the usual oracles."""
    specs = [tuple(s_) for s_ in case["specs"]]
    trace = [tuple(x) for x in case["trace"]]
    v = V()
    # which legal kernel answer: "timeout" (ETIMEDOUT, only for a wait that carries a timeout), "spurious" (FUTEX_WAIT returns 0
    # without a wake - allowed by futex(2) for EVERY wait), "eintr" (interrupted twice in a row)
    answer = case.get("answer", "timeout")
    tag = {"timeout": "futex-timeout", "spurious": "futex-spurious", "eintr": "futex-eintr"}[answer]
    info = dict(argv=None, outcome=tag, inject=None)
    # fault-free run, controller without futex calls of its own: position of the timed exit-word wait
    argv, res, rep = run_sched(binp, specs, "f", trace, strace=True, nofutex=True)
    info["argv"] = argv
    if crash_check(v, res, rep, specs):
        return v, info, rep
    ev = parse_strace(res["strace"])
    words = {b + 4 for b in rep["blocks"].values()}
    k = 0
    target = None
    for e in ev:
        if e["name"] != "futex":
            continue
        k += 1
        a = [x.strip() for x in e["args"].split(",", 3)]
        try:
            addr = _hex(a[0])
        except ValueError:
            continue
        if target is None and addr in words and len(a) > 3 and a[1].startswith("FUTEX_WAIT") and (answer != "timeout" or not a[3].startswith("NULL")) and e["pid"] == rep["main_tid"]:
            target = k
    if target is None:
        info["outcome"] = tag + (":no-timed-wait-on-this-trace" if answer == "timeout" else ":no-wait-on-this-trace")
        if answer != "timeout":
            v.add("MACHINERY:no-exit-word-wait", "the handle owner made no FUTEX_WAIT on the exit word although the trace has it sleep there")
        return v, info, rep
    inject = {"timeout": "futex:error=ETIMEDOUT:when=%d" % target,
              "spurious": "futex:retval=0:when=%d" % target,
              "eintr": "futex:error=EINTR:when=%d..%d" % (target, target + 1)}[answer]
    info["inject"] = inject
    argv, res, rep = run_sched(binp, specs, "f", trace, inject=inject, nofutex=True)
    info["argv"] = argv
    ev = parse_strace(res["strace"])
    inj = [e for e in ev if e["ret"] and "INJECTED" in e["ret"]]
    if crash_check(v, res, rep, specs):
        keep_evidence(case["name"], res)
        return v, info, rep
    if not inj or inj[0]["pid"] != rep["main_tid"] or _hex(inj[0]["args"].split(",")[0]) not in {b + 4 for b in rep["blocks"].values()}:
        v.add("MACHINERY:injection-missed", "%s did not hit the handle owner's wait on the exit word" % inject)
        return v, info, rep
    cfg = Cfg([(is_panic(p_), op) for _, p_, op in specs], "f")
    st = cfg.init()
    for lab in trace:
        st = [n for l, n, _ in successors(cfg, st, True) if l == lab][0]
    preds = predict(cfg, st)
    value_checks(v, rep, specs, preds)
    resource_checks(v, rep, specs, preds)
    strace_checks(v, rep, specs, preds, ev)
    if not rep["early"]:
        info["outcome"] = tag + ":waited-again"
        return v, info, rep
    info["outcome"] = tag + ":taken-for-thread-exit"
    # B: let the handle owner run on while the thread is still parked
    bi = next(i for i, (_o, _g, kk) in enumerate(trace) if kk == "b")
    h_rest = [(o, g, "n") for (o, g, kk) in trace[bi + 1:] if g < 30]
    t_rest = [(o, g, kk) for (o, g, kk) in trace[bi + 1:] if g >= 30]
    sched_b = trace[:bi + 1] + h_rest + t_rest
    argv, res, rep = run_sched(binp, specs, "f", sched_b, inject=inject, nofutex=True)
    info["argv_b"] = argv
    evb = parse_strace(res["strace"])
    vb = V()
    if rep["stuck"] and rep["spawn"]:
        # the thread, working on freed memory, left the scheduled path (e.g. its CAS read the poison): the
        # damage is in the partial report the probe's watchdog printed
        value_checks(vb, rep, specs, None)
        resource_checks(vb, rep, specs, None, ungated=True)
        vb = V([(k_, d_) for k_, d_ in vb if k_ in ("C05:join:none-without-panic", "C05:join:some-after-panic", "C05:join:wrong-value",
                                                      "C05:join:returned-before-thread-finished", "C05:join:effect-not-visible")
                or "written-after-free" in k_ or "freed-twice" in k_])
    elif not crash_check(vb, res, rep, specs):
        value_checks(vb, rep, specs, None)
        resource_checks(vb, rep, specs, None, ungated=True)
        strace_checks(vb, rep, specs, None, evb)
    for k_, d in vb:
        v.add(k_, "[handle owner scheduled on after the injected %s, thread still parked] " % inject + d)
    keep_evidence(case["name"], res)
    return v, info, rep


def enumerate_tmo(model_one, tier, answers=("timeout",)):
    """every single-thread model trace in which the handle owner sleeps on the exit word before the thread has exited"""
    cases = []
    for (p, op), traces in model_one.items():
        for ti, (tr, _fin) in enumerate(traces):
            if not any(k == "b" for _o, _g, k in tr):
                continue
            for ty in (("u64", "box") if tier == "thorough" else ("box",)):
                for answer in answers:
                    cases.append(dict(kind="tmo", specs=[(ty, p, op)], trace=tr, answer=answer,
                                      name="tmo/%s/%s/%s/t%d" % (answer, proto_name(p, op), ty, ti)))
    return cases


# (handle-side gate, thread-side gate, gate at which the handle owner first waits for the thread to be parked, outcome, op):
# the steps that follow the two gates touch the same shared word
RACE_PAIRS = [
    (20, 32, 0, False, "d"),   # flag: drop's CAS x thread's CAS
    (20, 41, 0, True, "d"),    # flag: drop's CAS x panic path's CAS
    (10, 32, 0, False, "j"),   # join entering its wait x thread's CAS
    (10, 35, 0, False, "j"),   # exit word: join's wait x thread leaving (free TLS, unmap, exit, kernel clear-tid)
    (10, 44, 0, True, "j"),    # exit word: join's wait x panicked thread leaving
    (21, 35, 20, False, "d"),  # exit word: drop's wait (CAS lost) x thread leaving
    (21, 44, 20, True, "d"),   # exit word: drop's wait (CAS lost) x panicked thread leaving
]


def enumerate_race(tier):
    per_proc = 1000
    procs = 10 if tier == "thorough" else 1
    cases = []
    for gh, gt, hold, p, op in RACE_PAIRS:
        for ty in ("unit", "box"):
            for k in range(procs):
                cases.append(dict(kind="race", specs=[(ty, p, op)], gh=gh, gt=gt, hold_h=hold, rounds=per_proc, batch=200, maxskew=64,
                                  name="race/%s-x-%s/%s/%d" % (GATE[gh], GATE[gt], ty, k)))
    return cases


def nest_layout(levels, pad):
    """Slots (= thread ordinals) of a nested configuration, in spawn order.  levels: list of (kind, op) where op is
    what the parent does with that level's handle.  -> (specs for the oracles, {level: slot}, failing slot or None)"""
    specs = []
    slot_of = {}
    failing = None
    for k, (kind, op) in enumerate(levels):
        if op == "f":
            for _ in range(pad):
                specs.append(("?", False, "j"))  # the parent's padding threads: spawned and joined at once
            failing = len(specs)
        slot_of[k] = len(specs)
        specs.append(("?", kind == "p", op))
    return specs, slot_of, failing


def eval_nest(binp, case):
    """Nested spawning: main spawns level 0, the thread of level k spawns level k+1 and joins / drops it (or its spawn is
    failed by injection), then returns or panics; main joins / drops level 0.  Same value / resource / system-call
    oracles as everywhere, with the handle owner of a thread being whoever spawned it."""
    ty = case["ty"]
    levels = [tuple(x) for x in case["levels"]]
    pad = case.get("pad", 0)
    which = case.get("fail")  # None | "clone" | "mmap"
    specs0, slot_of, failing = nest_layout(levels, pad)
    specs = [(("u64" if t == "?" and i != slot_of.get(next((k for k, s_ in slot_of.items() if s_ == i), -1), -2) else ty), p_, op)
             for i, (t, p_, op) in enumerate(specs0)]
    # padding threads return a u64, the levels return `ty`
    level_slots = set(slot_of.values())
    specs = [((ty if i in level_slots else "u64"), p_, op) for i, (_t, p_, op) in enumerate(specs0)]
    # a level that drops the FINISHED handle of a child which returned a value whose destructor panics runs that destructor
    # itself: it ends on the panic path (its own join gives None) - and the child's join block must still be released once
    dtor_drop_children = []
    if ty in DTOR_PANIC_TYPES:
        for k in range(len(levels) - 1):
            if levels[k + 1] == ("r", "l"):
                i = slot_of[k]
                specs[i] = (specs[i][0], True, specs[i][2])
                dtor_drop_children.append(slot_of[k + 1])
    argv = ["nest", "3000", ty, str(pad), ",".join("%s.%s" % (k, o) for k, o in levels)]
    v = V()
    info = dict(argv=argv, outcome="nest:depth%d:%s" % (len(levels), "+".join(o for _k, o in levels)))
    inject = None
    if which:
        # fault-free reference run: which call of which thread is the one to fail?
        res = run_probe(binp, argv, strace=True, timeout=30)
        rep0 = parse_report(res["out"])
        if crash_check(v, res, rep0, specs):
            keep_evidence(case["name"], res)
            return v, info, rep0
        ev0 = parse_strace(res["strace"])
        ctid = rep0["tids"].get(failing, 0)
        ce = next((e for e in ev0 if e["name"] == "clone" and e["ret"] and e["ret"].split()[0] == str(ctid)), None)
        if ce is None:
            v.add("MACHINERY:nest-reference", "no clone of the to-be-failed thread in the reference run")
            return v, info, rep0
        parent = ce["pid"]
        calls = [e for e in ev0 if e["pid"] == parent and e["name"] == which and e["i0"] <= ce["i0"]]
        if which == "mmap":
            calls = [e for e in ev0 if e["pid"] == parent and e["name"] == "mmap" and e["i0"] < ce["i0"]]
        k_thread = len(calls)
        others = max([len([e for e in ev0 if e["pid"] == t and e["name"] == which]) for t in {e["pid"] for e in ev0} if t != parent] or [0])
        k_merged = len([e for e in ev0 if e["name"] == which and e["i0"] <= (ce["i0"] if which == "clone" else calls[-1]["i0"])])
        tries = []
        if others < k_thread:
            tries.append(k_thread)   # strace counts per thread
        tries.append(k_merged)       # ... or over the whole process
        err = "EAGAIN" if which == "clone" else "ENOMEM"
        ok = False
        for k in tries:
            inject = "%s:error=%s:when=%d" % (which, err, k)
            res = run_probe(binp, argv, inject=inject, timeout=30)
            rep = parse_report(res["out"])
            ev = parse_strace(res["strace"])
            inj = [e for e in ev if e["ret"] and "INJECTED" in e["ret"]]
            # the injected call must be one of the parent of the failing slot, and exactly one call
            ptid = rep["tids"].get(next((s_ for k_, s_ in slot_of.items() if slot_of.get(k_ + 1) == failing or False), -1), None)
            lvl = next(k_ for k_, s_ in slot_of.items() if s_ == failing)
            ptid = rep["main_tid"] if lvl == 0 else rep["tids"].get(slot_of[lvl - 1], 0)
            if len(inj) == 1 and inj[0]["pid"] == ptid and (res["timed_out"] or res["rc"] == -signal.SIGALRM or rep["spawn"].get(failing, (None,))[0] is not None):
                ok = True
                break
        info["inject"] = inject
        if not ok:
            v.add("MACHINERY:nest-injection-missed", "could not fail the %s of the nested spawn (tried when=%s)" % (which, tries))
            return v, info, rep
    else:
        res = run_probe(binp, argv, strace=True, timeout=30)
        rep = parse_report(res["out"])
        ev = parse_strace(res["strace"])
    if crash_check(v, res, rep, specs):
        # a hang here is what a thread that reaped another thread and then exits without waking its own joiner looks like
        keep_evidence(case["name"], res)
        info["outcome"] += ":hang"
        if res["timed_out"] or res["rc"] == -signal.SIGALRM:
            # once more in guard mode: every reaper first looks whether the kernel cleared the finished thread's exit word
            # and leaves the handle alone if not, so that the run ends and what stays allocated / mapped can be accounted
            res2 = run_probe(binp, argv + ["guard"], strace=not inject, inject=inject, timeout=30)
            rep2 = parse_report(res2["out"])
            if rep2["done"]:
                for o in rep2["notcleared"]:
                    v.add("C05:join:exit-word-not-cleared",
                          "thread %d is gone but its exit word still reads 1: the kernel was not asked to clear it (the thread reset its clear-tid "
                          "address although its join block stays with its handle owner) - join / drop of this handle waits for ever" % o)
                for o in rep2["notgone"]:
                    v.add("C05:join:hangs", "thread %d never finished (it is itself waiting for a thread whose exit word is never cleared)" % o)
                vg = V()
                per2 = resource_checks(vg, rep2, specs, None, ungated=True)
                strace_checks(vg, rep2, specs, None, parse_strace(res2["strace"]), per=per2)
                for k_, d_ in vg:
                    v.add(k_, "[guard run: handles of threads whose exit word was never cleared are left alone] " + d_)
        return v, info, rep
    if dtor_drop_children:
        info["outcome"] = "nest:result-destructor-panics-in-dropping-thread:depth%d" % len(levels)
    if which:
        sp = rep["spawn"].get(failing)
        if sp is None:
            v.add("C05:probe:crashed", "no result for the nested spawn that was to fail")
        elif sp[0] == 1:
            v.add("C05:spawn:ok-after-failed-%s" % which, "nested spawn #%d returned Ok although its %s failed" % (failing, which))
        elif sp[1] != (11 if which == "clone" else 12):
            v.add("C05:spawn:wrong-error", "nested spawn #%d returned errno %d after a failed %s" % (failing, sp[1], which))
        per0, _a, _u, _t = classify_allocs(rep)
        s_ = per0.get(failing)
        leaked = []
        if s_:
            for r_ in ("block", "closure", "tls"):
                if s_[r_] and not s_[r_]["frees"]:
                    leaked.append("%s(%d bytes)" % (r_, s_[r_]["size"]))
        if leaked:
            v.add("C06:spawn-failed-%s:resources-leaked" % which, "nested spawn #%d failed, what it had set up is never released: %s" % (failing, ", ".join(leaked)))
    value_checks(v, rep, specs, None)
    per = resource_checks(v, rep, specs, None, ungated=True)
    strace_checks(v, rep, specs, None, ev, per=per)
    maps_checks(v, rep)
    info["futex_waits"] = futex_scan(rep, ev)
    if dtor_drop_children:
        # the defect class found here first (repaired in /repo d70b51a) keeps a key of its own
        v2 = V()
        for k_, d_ in v:
            if k_ == "C06:join-block:leaked" and any(("thread %d " % c) in d_ for c in dtor_drop_children):
                k_ = "C06:join-block:leaked-after-result-destructor-panic"
                d_ += " - its handle was dropped after it had finished by a spawned thread, the destructor of its result panicked there before the join block was released"
            v2.add(k_, d_)
        v = v2
    return v, info, rep


def enumerate_nest(tier):
    thorough = tier == "thorough"
    cases = []
    inner = [("r", "j"), ("p", "j"), ("r", "l"), ("p", "l"), ("r", "e"), ("p", "e"), ("r", "x")]
    for ty in ("u64", "box"):
        for okind in ("r", "p"):
            for oop in ("j", "l", "x"):
                for ik, iop in inner:
                    cases.append(dict(kind="nest", ty=ty, levels=[(okind, oop), (ik, iop)], pad=0,
                                      name="nest/2/%s/%s.%s>%s.%s" % (ty, okind, oop, ik, iop)))
                for which in ("clone", "mmap"):
                    cases.append(dict(kind="nest", ty=ty, levels=[(okind, oop), ("r", "f")], pad=3, fail=which,
                                      name="nest/2/%s/%s.%s>fail-%s" % (ty, okind, oop, which)))
    # results whose destructor panics: the reaper joins (and takes the value apart) or drops the handle before the child's CAS
    for okind in ("r", "p"):
        for ik, iop in (("r", "j"), ("r", "e"), ("p", "e")):
            cases.append(dict(kind="nest", ty="pd", levels=[(okind, "j"), (ik, iop)], pad=0, name="nest/2/pd/%s.j>%s.%s" % (okind, ik, iop)))
    # ... or drops the child's FINISHED handle: the destructor panics in the dropper (a spawned thread)
    for ty in DTOR_PANIC_TYPES:
        cases.append(dict(kind="nest", ty=ty, levels=[("r", "j"), ("r", "l")], pad=0, name="nest/2/%s/r.j>r.l" % ty))
        cases.append(dict(kind="nest", ty=ty, levels=[("r", "j"), ("p", "l")], pad=0, name="nest/2/%s/r.j>p.l" % ty))
        cases.append(dict(kind="nest", ty=ty, levels=[("r", "j"), ("r", "j"), ("r", "l")], pad=0, name="nest/3/%s/r.j>r.j>r.l" % ty))
        cases.append(dict(kind="nest", ty=ty, levels=[("r", "j"), ("r", "l"), ("r", "j")], pad=0, name="nest/3/%s/r.j>r.l>r.j" % ty))
        # the MAIN thread as the dropper: the panicking destructor ends the process with status 1 (the leak is moot there)
        cases.append(dict(kind="hist", specs=[(ty, False, "l")], reps=1, log=True, expect_main_panic=True, name="hist/dtor-panics/main-dropper/%s" % ty))
    if thorough:
        for ty in ("u64", "box"):
            for oop in ("j", "l"):
                for mk, mop in (("r", "j"), ("p", "j"), ("r", "l"), ("r", "e")):
                    for ik, iop in inner:
                        cases.append(dict(kind="nest", ty=ty, levels=[("r", oop), (mk, mop), (ik, iop)], pad=0,
                                          name="nest/3/%s/r.%s>%s.%s>%s.%s" % (ty, oop, mk, mop, ik, iop)))
                    for which in ("clone", "mmap"):
                        cases.append(dict(kind="nest", ty=ty, levels=[("r", oop), (mk, mop), ("r", "f")], pad=3, fail=which,
                                          name="nest/3/%s/r.%s>%s.%s>fail-%s" % (ty, oop, mk, mop, which)))
    return cases


EVAL = dict(gated=eval_gated, free=eval_free, hist=eval_hist, fault=eval_fault, race=eval_race, tmo=eval_tmo, nest=eval_nest)


_RETRIES = [0]


def run_case(binp, case):
    t0 = time.time()
    try:
        v, info, rep = EVAL[case["kind"]](binp, case)
        if case["kind"] == "gated" and any(k.startswith("C05:conformance") for k, _ in v) and _RETRIES[0] < 6:
            # a busy machine must not look like a conformance failure: once more, alone-ish, with a long watchdog
            _RETRIES[0] += 1
            v2, info2, rep2 = EVAL["gated"](binp, dict(case, timeout_ms=20000))
            info2["retried"] = True
            if not any(k.startswith("C05:conformance") for k, _ in v2):
                info2["first_attempt"] = [k for k, _ in v]
            v, info, rep = v2, info2, rep2
    except Exception as ex:  # machinery problem, never silently a pass
        v, info, rep = V([("MACHINERY:exception", "%s: %s" % (type(ex).__name__, ex))]), dict(outcome="exception"), None
    info["wall"] = round(time.time() - t0, 3)
    return case, list(v), info


# ======================================================================================
# 7. Enumeration
# ======================================================================================
PROTO = [(False, "j"), (False, "d"), (True, "j"), (True, "d")]


def proto_name(p, op):
    return ("panics" if p else "returns") + "+" + ("join" if op == "j" else "drop")


def enumerate_cases(tier, model):
    """-> list of cases.  model: dict filled with per-config trace lists."""
    cases = []
    thorough = tier == "thorough"
    one = {}
    for p, op in PROTO:
        cfg = Cfg([(p, op)])
        one[(p, op)] = maximal_traces(cfg)
    model["one"] = one
    # --- 1 thread under gates: every trace x every type; strace on every trace for two types
    #     (thorough: for all), a delayed variant for the join scenarios
    for (p, op), traces in one.items():
        for ti, (tr, fin) in enumerate(traces):
            for ty in TYPES:
                st = True
                cases.append(dict(kind="gated", specs=[(ty, p, op)], order="f", trace=tr, strace=st, delay_us=0,
                                  name="g1/%s/%s/t%d" % (proto_name(p, op), ty, ti)))
            if not p and op == "j":
                for ty in DTOR_PANIC_TYPES:
                    cases.append(dict(kind="gated", specs=[(ty, p, op)], order="f", trace=tr, strace=True, delay_us=0,
                                      name="g1/%s/%s/t%d" % (proto_name(p, op), ty, ti)))
            if p:
                for kind in ("e", "o", "m", "w"):
                    cases.append(dict(kind="gated", specs=[("u64" if ti % 2 else "box", kind, op)], order="f", trace=tr, strace=True, delay_us=0,
                                      name="g1k/%s/%s/t%d" % (proto_name(p, op), kind, ti)))
            if op == "j" or thorough:
                cases.append(dict(kind="gated", specs=[("u64", p, op)], order="f", trace=tr, strace=True, delay_us=3000,
                                  name="g1d/%s/u64/t%d" % (proto_name(p, op), ti)))
    # --- 2 threads under gates: product of single-thread traces, canonical linearisations
    pairs = []
    if thorough:
        for a in PROTO:
            for b in PROTO:
                pairs.append((a, b, "f"))
        pairs += [((False, "j"), (True, "d"), "r"), ((False, "d"), (False, "j"), "r"), ((True, "j"), (False, "d"), "r")]
    else:
        pairs = [((False, "j"), (True, "d"), "f"), ((False, "d"), (True, "j"), "r")]
    tymix = [("u64", "str"), ("al64", "big"), ("box", "unit"), ("a3", "u8"), ("a16", "a4k"), ("a64x", "a32")]
    n2 = 0
    model["two"] = []
    for a, b, order in pairs:
        cfg = Cfg([a, b], order)
        ta = [[g for _o, g, _k in tr] for tr, _ in one[a]]
        tb = [[g for _o, g, _k in tr] for tr, _ in one[b]]
        combos = [(i, j) for i in range(len(ta)) for j in range(len(tb))]
        if not thorough:
            # a spread of the trace pairs (thorough: all of them)
            step = max(1, len(combos) // 24)
            combos = combos[::step][:25]
        nlin = 0
        for ci, (i, j) in enumerate(combos):
            pols = ("early", "late", "rr")
            seen_lin = set()
            for pol in (pols if thorough else (pols[ci % 3],)):
                tr, fin = linearize(cfg, [ta[i], tb[j]], pol)
                if tr is None:
                    model.setdefault("linearize_failures", []).append((a, b, order, i, j))
                    continue
                key = tuple(tr)
                if key in seen_lin:
                    continue  # two policies gave the same interleaving
                seen_lin.add(key)
                tys = tymix[n2 % len(tymix)]
                n2 += 1
                nlin += 1
                cases.append(dict(kind="gated", specs=[(tys[0], a[0], a[1]), (tys[1], b[0], b[1])], order=order, trace=tr,
                                  strace=True, delay_us=(2000 if thorough and n2 % 16 == 0 else 0),
                                  name="g2/%s|%s/%s/%d-%d/%s" % (proto_name(*a), proto_name(*b), order, i, j, pol)))
        model["two"].append((a, b, order, nlin))
    # --- 3 threads under gates (thorough): a spread over the triple products
    model["three"] = 0
    if thorough:
        for trip, order in (([(False, "j"), (True, "d"), (False, "d")], "f"), ([(True, "j"), (False, "d"), (False, "j")], "r")):
            cfg = Cfg(trip, order)
            per = [[[g for _o, g, _k in tr] for tr, _ in one[x]] for x in trip]
            total = len(per[0]) * len(per[1]) * len(per[2])
            stepn = max(1, total // 150)
            for ci, idx in enumerate(range(0, total, stepn)):
                i, r_ = divmod(idx, len(per[1]) * len(per[2]))
                j, k3 = divmod(r_, len(per[2]))
                pol = ("early", "late", "rr")[ci % 3]
                tr, fin = linearize(cfg, [per[0][i], per[1][j], per[2][k3]], pol)
                if tr is None:
                    model.setdefault("linearize_failures", []).append((trip, order, i, j, k3))
                    continue
                tys = (TYPES[ci % len(TYPES)], TYPES[(ci + 3) % len(TYPES)], TYPES[(ci + 5) % len(TYPES)])
                model["three"] += 1
                cases.append(dict(kind="gated", specs=[(tys[x], trip[x][0], trip[x][1]) for x in range(3)], order=order, trace=tr,
                                  strace=True, delay_us=0, name="g3/%s/%d-%d-%d/%s" % (order, i, j, k3, pol)))
    # --- ungated: n threads alive at once, mixed types/outcomes/ops
    ns = range(1, 65) if thorough else (1, 2, 8)
    for n in ns:
        for variant in (0, 1) if thorough else (0,):
            specs = []
            for i in range(n):
                ty = TYPES[(i + variant) % len(TYPES)]
                p = (i % 3 == 2) if variant == 0 else (i % 2 == 1)
                # a heap-owning result is only ever joined here (its drop is the separately keyed F16 case)
                op = "j" if (i % 4 != 3 or (ty in HEAP_TYPES and not p)) else "d"
                specs.append((ty, p, op))
            cases.append(dict(kind="free", specs=specs, order="f" if variant == 0 else "r", strace=(n <= 8 or n % 8 == 0),
                              name="free/n%d/v%d" % (n, variant)))
    return cases


HIST_LETTERS = [(False, "j"), (False, "J"), (False, "w"), (False, "e"), (False, "l"), (False, "x"),
                (True, "j"), (True, "J"), (True, "e"), (True, "l"), (True, "x")]


def enumerate_hist(tier):
    thorough = tier == "thorough"
    cases = []
    # the scenario alphabet for mixture words: outcome x handle fate (timing forced by the probe)
    alpha = [("u64", False, "j"), ("u64", False, "e"), ("u64", False, "l"), ("u64", True, "j"), ("u64", True, "e"), ("u64", True, "l")]
    alpha_t = alpha + [("str", False, "w"), ("big", True, "x"), ("al64", False, "x")]
    al = alpha_t if thorough else alpha
    words = [[a] for a in al] + [[a, b] for a in al for b in al] + [[a, b, c] for a in alpha for b in alpha for c in alpha]
    for w in words:
        cases.append(dict(kind="hist", specs=w, reps=1, log=True, name="hist/word/" + spec_str(w)))
    # "the thread finishes during the join", timed by the kernel clock: the closure sleeps 300 ms, join is called at once
    for sp in (("u64", False, "s"), ("box", False, "s"), ("u64", True, "s")):
        cases.append(dict(kind="hist", specs=[sp], reps=1, log=True, strace=True, name="hist/sleep300/" + spec_str([sp])))
    # results whose Option::None is not all-zero: {returns, panics} x {join, join late, drop before the thread's CAS, drop after exit, racy drop}
    for ty in ("tok", "vec", "lease", "en", "str"):
        for p in (False, True):
            for op in ("j", "J", "e", "l", "x"):
                cases.append(dict(kind="hist", specs=[(ty, p, op)], reps=1, log=True, name="hist/niche/%s:%s:%s" % (ty, kind_letter(p), op)))
    cases.append(dict(kind="hist", specs=[("tok", False, "j"), ("tok", True, "l"), ("tok", False, "e"), ("tok", True, "j"), ("tok", False, "l")] * 4,
                      reps=1, log=True, name="hist/niche/tok-20-threads"))
    # results whose DESTRUCTOR panics: joined (the joiner takes the value apart), or the handle is dropped before the
    # thread's flag CAS so that the thread itself has to run the destructor (and ends on the panic path)
    for ty in DTOR_PANIC_TYPES:
        for op in ("j", "J", "w", "e"):
            cases.append(dict(kind="hist", specs=[(ty, False, op)], reps=1, log=True, name="hist/dtor-panics/%s:r:%s" % (ty, op)))
        cases.append(dict(kind="hist", specs=[(ty, True, "e")], reps=1, log=True, name="hist/dtor-panics/%s:p:e" % ty))
        cases.append(dict(kind="hist", specs=[(ty, False, "e"), (ty, False, "j"), (ty, False, "e")], reps=1, log=True, name="hist/dtor-panics/%s:e-j-e" % ty))
    # WHERE the closure panics: inside a print macro argument (print lock held), holding a Mutex / RwLock guard
    for kind in ("e", "o", "m", "w"):
        for op in ("j", "J", "w", "e", "l", "x"):
            for ty in ("u64", "box"):
                cases.append(dict(kind="hist", specs=[(ty, kind, op)], reps=1, log=True, name="hist/panic-where/%s:%s:%s" % (ty, kind, op)))
        # ... and a later thread that panics (plainly / in the same place) after the first one died there
        # (a second thread that PRINTS after one died inside a print macro never gets the print lock: its closure never
        #  finishes, which C05/C06 do not speak about - those combinations are the "observe" cases below)
        for k2 in (("p", kind) if kind in "mw" else ("p", "m")):
            for op2 in ("j", "l"):
                cases.append(dict(kind="hist", specs=[("u64", kind, "j"), ("u64", k2, op2)], reps=1, log=True,
                                  name="hist/panic-where/%s-then-%s:%s" % (kind, k2, op2)))
    cases.append(dict(kind="hist", specs=[("u64", "E", "j"), ("u64", "P", "j"), ("u64", "e", "j"), ("u64", "o", "l")], reps=1, log=True,
                      name="hist/panic-where/prints-then-panics"))
    # observation (not judged): does a thread that merely prints still finish after another one died inside a print macro?
    cases.append(dict(kind="hist", specs=[("u64", "o", "j"), ("u64", "P", "T")], reps=1, log=True, name="hist/observe/println-after-println-panic"))
    cases.append(dict(kind="hist", specs=[("u64", "e", "j"), ("u64", "E", "T")], reps=1, log=True, name="hist/observe/eprintln-after-eprintln-panic"))
    cases.append(dict(kind="hist", specs=[("u64", "e", "j"), ("u64", "e", "T")], reps=1, log=True, name="hist/observe/eprintln-panic-after-eprintln-panic"))
    cases.append(dict(kind="hist", specs=[("u64", "o", "j"), ("u64", "E", "T")], reps=1, log=True, name="hist/observe/eprintln-after-println-panic"))
    # heap-owning results dropped unjoined (F16 candidate): every drop timing
    for ty in ("box", "str"):
        for op in ("e", "l", "x"):
            cases.append(dict(kind="hist", specs=[(ty, False, op)], reps=1, log=True, name="hist/f16/%s/%s" % (ty, op)))
    return cases


def enumerate_long(tier, closure_sizes):
    thorough = tier == "thorough"
    reps = 2000 if thorough else 200
    cases = []
    types = ("u64", "al64", "big", "str", "unit", "tok", "lease") if thorough else ("u64", "big", "tok")
    for ty in types:
        for p, op in HIST_LETTERS:
            if ty in HEAP_TYPES and not p and op in ("e", "l", "x"):
                continue
            cases.append(dict(kind="hist", specs=[(ty, p, op)], reps=reps, log=False, closure_sizes=closure_sizes,
                              name="hist/long/%s:%s:%s" % (ty, "p" if p else "r", op)))
    # mixtures: all two-letter words back to back, repeated (thousands of threads in one process)
    alpha = [("u64", False, "j"), ("u64", False, "e"), ("u64", False, "l"), ("u64", True, "j"), ("u64", True, "e"), ("u64", True, "l"),
             ("str", False, "w"), ("big", True, "x")]
    mix_word = [x for a in alpha for b in alpha for x in (a, b)][:64]
    cases.append(dict(kind="hist", specs=mix_word, reps=(32 if thorough else 8), log=False, closure_sizes=closure_sizes,
                      name="hist/mixture/64x%d" % (32 if thorough else 8)))
    return cases


def enumerate_faults(binp, tier):
    """fault-free strace run of the spawn loop -> the positions of the stack mmaps and clones"""
    n = 4 if tier == "thorough" else 3
    res = run_probe(binp, ["fault", str(n)], strace=True, timeout=20)
    rep = parse_report(res["out"])
    ev = parse_strace(res["strace"])
    main = rep["main_tid"]
    cases = []
    notes = []
    if not rep["done"]:
        notes.append("fault-free run of the spawn loop failed")
        return cases, notes
    k = 0
    victim = 0
    for e in ev:
        if e["pid"] == main and e["name"] == "mmap":
            k += 1
            a = e["args"].split(",")
            if len(a) > 1 and a[1].strip() == str(STACK_SZ):
                cases.append(dict(kind="fault", n=n, which="mmap", victim=victim, inject="mmap:error=ENOMEM:when=%d" % k,
                                  name="fault/mmap/%d" % victim))
                victim += 1
    k = 0
    for e in ev:
        if e["pid"] == main and e["name"] == "clone":
            cases.append(dict(kind="fault", n=n, which="clone", victim=k, inject="clone:error=EAGAIN:when=%d" % (k + 1),
                              name="fault/clone/%d" % k))
            k += 1
    if victim != n or k != n:
        notes.append("expected %d stack mmaps and clones in the fault-free run, saw %d/%d" % (n, victim, k))
    return cases, notes


# ======================================================================================
# 8. Collect (shared by C05 and C06), cache, reports
# ======================================================================================
def model_check(tier):
    """BFS of the protocol model: 1-thread configs, 2-thread configs; self-test with mutants."""
    thorough = tier == "thorough"
    states = trans = 0
    errors = []
    cfgs = [Cfg([x]) for x in PROTO]
    two = [(a, b, o) for a in PROTO for b in PROTO for o in ("f", "r")] if thorough else \
        [((False, "j"), (True, "d"), "f"), ((False, "d"), (True, "j"), "r"), ((True, "d"), (False, "d"), "f")]
    cfgs += [Cfg([a, b], o) for a, b, o in two]
    if thorough:
        cfgs.append(Cfg([(False, "j"), (True, "d"), (False, "d")], "f"))
    for cfg in cfgs:
        r = explore(cfg)
        states += r["states"]
        trans += r["transitions"]
        for name, tr in r["errors"].items():
            errors.append((name, cfg.threads, cfg.order, tr))
    # self-test: each mutant of the model must trip an invariant
    killed = []
    for m in MUTANTS:
        hit = set()
        for x in PROTO:
            r = explore(Cfg([x], mutant=m))
            hit |= set(r["errors"])
        killed.append((m, sorted(hit)))
    return dict(states=states, transitions=trans, errors=errors, mutants=killed, configs=len(cfgs))


def _stamp(binp, tier):
    h = hashlib.sha256()
    for p in (binp, os.path.abspath(__file__)):
        with open(p, "rb") as f:
            h.update(f.read())
    h.update(tier.encode())
    h.update(os.environ.get("VERIF_THREAD_REPO", "/repo").encode())
    return h.hexdigest()


def collect(tier, env=None, use_cache=True):
    t_start = time.time()
    binp = build_probe(env)
    stamp = _stamp(binp, tier)
    cache = os.path.join(WORK, "probe-thread.%s.cache.json" % tier)
    if use_cache and os.path.exists(cache):
        try:
            c = json.load(open(cache))
            if c.get("stamp") == stamp and time.time() - c.get("when", 0) < 1800:
                c["from_cache"] = True
                return c
        except (ValueError, OSError):
            pass
    notes = []
    # which tree was the probe built from?  (other jobs patch /repo in place for a while: a violation seen
    # while the tree was dirty belongs to that patch)
    repo = os.environ.get("VERIF_THREAD_REPO", "/repo")
    try:
        head = subprocess.run(["git", "-C", repo, "rev-parse", "--short", "HEAD"], stdout=subprocess.PIPE, stderr=subprocess.DEVNULL, text=True).stdout.strip()
        dirty = subprocess.run(["git", "-C", repo, "status", "--porcelain", "--untracked-files=no"], stdout=subprocess.PIPE, stderr=subprocess.DEVNULL, text=True).stdout.split("\n")
        dirty = [d.strip() for d in dirty if d.strip()]
        notes.append("probe built from %s at %s%s" % (repo, head or "?", (" with uncommitted changes: " + ", ".join(dirty[:6])) if dirty else " (clean tree)"))
    except OSError:
        pass
    mc = model_check(tier)
    model = {}
    cases = enumerate_cases(tier, model)
    cases += enumerate_hist(tier)
    rcases = enumerate_race(tier)
    cases += enumerate_nest(tier)
    fcases, fnotes = enumerate_faults(binp, tier)
    notes += fnotes
    results = []
    # determinism: the first trace twice, compare the normalised observations
    first = next(c for c in cases if c["kind"] == "gated" and c["strace"])
    d1 = run_case(binp, first)
    d2 = run_case(binp, first)
    if (d1[1], d1[2].get("outcome"), d1[2].get("conformant")) != (d2[1], d2[2].get("outcome"), d2[2].get("conformant")):
        notes.append("machinery-failure")
        notes.append("first trace replayed twice gave different observations: %r vs %r" % (d1[1:], d2[1:]))
    with concurrent.futures.ThreadPoolExecutor(max_workers=WORKERS) as ex:
        futs = [ex.submit(run_case, binp, c) for c in fcases]  # the hanging ones first: they cost 5 s each
        futs += [ex.submit(run_case, binp, c) for c in rcases]  # then the long ones
        futs += [ex.submit(run_case, binp, c) for c in cases]
        for f in futs:
            results.append(f.result())
        # closure box sizes per type, learned from the logged one-letter histories
        closure_sizes = {}
        for ty in TYPES:
            res = run_probe(binp, ["hist", "5000", "1", "1", "%s:p:j" % ty], timeout=20)
            rep = parse_report(res["out"])
            per, _a, _u, _t = classify_allocs(rep)
            if per.get(0) and per[0]["closure"]:
                closure_sizes[ty] = (per[0]["closure"]["size"], per[0]["closure"]["align"])
        lcases = enumerate_long(tier, closure_sizes)
        futs = [ex.submit(run_case, binp, c) for c in lcases]
        for f in futs:
            results.append(f.result())
        # waits on the exit word seen in the fault-free logs: timed or not?
        fw = dict(untimed=0, timed=0, examples=[])
        for _c, _v, i_ in results:
            w_ = i_.get("futex_waits")
            if w_:
                fw["untimed"] += w_["untimed"]
                fw["timed"] += w_["timed"]
                fw["examples"] = (fw["examples"] + w_["timed_examples"])[:3]
        # a spurious return (0 without a wake) and EINTR are legal answers for every FUTEX_WAIT; ETIMEDOUT only for a timed one
        tcases = enumerate_tmo(model["one"], tier, ("spurious", "eintr") + (("timeout",) if fw["timed"] else ()))
        fw["injection_runs"] = len(tcases)
        futs = [ex.submit(run_case, binp, c) for c in tcases]
        for f in futs:
            results.append(f.result())
    cleanup_tmp()
    out = dict(stamp=stamp, when=time.time(), tier=tier, model=dict(states=mc["states"], transitions=mc["transitions"], configs=mc["configs"],
               errors=[(n, [list(t) for t in th], o, [list(l) for l in tr]) for n, th, o, tr in mc["errors"]], mutants=mc["mutants"],
               one={proto_name(*k): len(vv) for k, vv in model["one"].items()}, two=[(proto_name(*a), proto_name(*b), o, n) for a, b, o, n in model["two"]],
               three=model.get("three", 0), linearize_failures=len(model.get("linearize_failures", []))),
               futex_waits=fw, notes=notes, results=[dict(case=c, violations=v, info=i) for c, v, i in results], wall=round(time.time() - t_start, 2))
    os.makedirs(WORK, exist_ok=True)
    with open(cache, "w") as f:
        json.dump(out, f)
    return out


def make_report(prop, tier, data):
    rep = dict(evaluations=0, distinct_nontrivial=0, states=data["model"]["states"], transitions=data["model"]["transitions"],
               traces_validated_against_impl=0, samples=[], violations=[], outcomes={}, caps_hit=[], bounds={}, notes=list(data["notes"]),
               rule="", exhaustive=True)
    viol = {}

    def add(key, desc, replay):
        if key in viol:
            viol[key]["count"] += 1
        else:
            viol[key] = dict(key=key, desc=desc, replay=replay, count=1)

    # model-level findings belong to C05 (protocol) - resource invariants to C06
    for name, threads, order, tr in data["model"]["errors"]:
        c06 = any(s in name for s in ("leaked", "freed-twice", "free-of-nothing", "freed-join-block"))
        if (prop == "C06") == c06:
            add("%s:model:%s" % (prop, name), "the protocol model violates invariant %s for threads %r order %s along %s" %
                (name, threads, order, sched_string([tuple(x) for x in tr])), dict(kind="model", threads=threads, order=order, invariant=name))
    for m, hit in data["model"]["mutants"]:
        if not hit:
            rep["notes"].append("machinery-failure")
            rep["notes"].append("model self-test: mutant %s trips no invariant" % m)
    if data["model"]["linearize_failures"]:
        rep["notes"].append("machinery-failure")
        rep["notes"].append("could not linearise %d two-thread trace pairs" % data["model"]["linearize_failures"])
    seen = set()
    kinds = {}
    sample_n = {}
    sampled = dict(threads=0, aligned=0)
    for r in data["results"]:
        case, vs, info = r["case"], r["violations"], r["info"]
        k = case["kind"]
        kinds[k] = kinds.get(k, 0) + 1
        if k == "race":
            # SAMPLED phase: not part of the enumerated space (evaluations / distinct / exhaustive)
            sampled["threads"] += info.get("threads", 0)
            sampled["aligned"] += info.get("aligned", 0)
            oc = "sampled-" + info.get("outcome", "race")
            rep["outcomes"][oc] = rep["outcomes"].get(oc, 0) + 1
            for key, desc in vs:
                if key.startswith("MACHINERY"):
                    rep["notes"].append("machinery-failure")
                    rep["notes"].append("%s: %s (%s)" % (key, desc, case.get("name")))
                elif key.startswith(prop + ":"):
                    add(key, desc, case)
            continue
        rep["evaluations"] += 1
        sig = (k, json.dumps(case.get("specs")), json.dumps(case.get("trace")), case.get("order"), case.get("inject"), case.get("reps"), case.get("delay_us"),
               json.dumps(case.get("levels")), case.get("ty"), case.get("fail"), case.get("answer"))
        if sig not in seen:
            seen.add(sig)
            rep["distinct_nontrivial"] += 1
        oc = "%s/%s" % (k, info.get("outcome", ""))
        if k == "gated":
            # outcome class without the types: what the protocol did
            oc = "gated/" + "/".join(re.sub(r"^[a-z0-9]+:", "", part) for part in info.get("outcome", "").split("/"))
        rep["outcomes"][oc] = rep["outcomes"].get(oc, 0) + 1
        if k == "gated" and info.get("conformant") and not any(key.startswith("C05:conformance") for key, _ in vs):
            rep["traces_validated_against_impl"] += 1
        for key, desc in vs:
            if key.startswith("MACHINERY"):
                rep["notes"].append("machinery-failure")
                rep["notes"].append("%s: %s (%s)" % (key, desc, case.get("name")))
            elif key.startswith(prop + ":"):
                add(key, desc, case)
        nk = sample_n.get(oc.split(":")[0] if k != "gated" else oc, 0)
        if len(rep["samples"]) < 14 and nk < 1:
            sample_n[oc.split(":")[0] if k != "gated" else oc] = nk + 1
            rep["samples"].append(dict(name=case.get("name"), probe_argv=info.get("argv"), strace_inject=case.get("inject"),
                                       model_prediction=info.get("outcome"), conformant=info.get("conformant"),
                                       violations=[key for key, _ in vs]))
    fw = data.get("futex_waits", {})
    if fw.get("timed"):
        rep["outcomes"]["futex-wait:timed"] = fw["timed"]
        rep["notes"].append("%d of %d observed waits on an exit word carry a timeout (e.g. %s): ETIMEDOUT is a legal answer, %d injection runs made" %
                            (fw["timed"], fw["timed"] + fw.get("untimed", 0), "; ".join(fw.get("examples", [])), fw.get("injection_runs", 0)))
    elif fw.get("untimed"):
        # vacuous on purpose: with no timeout argument the kernel cannot answer ETIMEDOUT
        rep["outcomes"]["futex-wait:untimed"] = fw["untimed"]
        rep["notes"].append("all %d observed waits on an exit word pass timeout=NULL: ETIMEDOUT is not a legal kernel answer (timeout injection not run); "
                            "spurious return 0 and EINTR x2 were injected in %d runs" % (fw["untimed"], fw.get("injection_runs", 0)))
    else:
        rep["notes"].append("machinery-failure")
        rep["notes"].append("no wait on an exit word was observed in any fault-free system-call log")
    rep["violations"] = list(viol.values())
    m = data["model"]
    rep["bounds"] = dict(tier=tier, model_configs=m["configs"], one_thread_traces=m["one"], two_thread_pairs=len(m["two"]),
                         two_thread_traces=sum(x[3] for x in m["two"]), three_thread_traces=m.get("three", 0), runs_by_kind=kinds, result_types=list(TYPES),
                         history_reps=2000 if tier == "thorough" else 200, ungated_max_threads=64 if tier == "thorough" else 8,
                         model_mutants_rejected="%d/%d" % (sum(1 for _m, h in m["mutants"] if h), len(m["mutants"])),
                         sampled_race_sweep=dict(pairs=["%s x %s" % (GATE[a], GATE[b]) for a, b, _h, _p, _o in RACE_PAIRS], result_types=["unit", "box"],
                                                 skew_pauses="-64..+64", threads=sampled["threads"], released_together=sampled["aligned"]))
    rep["rule"] = ("protocol model of spawn/join/drop/thread-exit/kernel-exit with steps = the H3 gates: BFS over all interleavings (1, 2%s threads), "
                   "invariants on every state; every maximal trace of the 1-thread model x 8 result types and %s of the 2-thread model is replayed as a gate schedule "
                   "on the real binary (one probe process per trace; quarantining allocator log + strace) and compared with the model's prediction; "
                   "ungated runs with 1..%d concurrently live threads; histories: all scenario words of length <= 3 and each scenario x %d back to back with a "
                   "fingerprint lasso; each stack mmap / clone of a spawn loop failed by strace injection; closures that panic in a particular PLACE (inside an "
                   "eprintln!/println! argument = holding the print lock, holding a Mutex / RwLock write guard) on every panic trace and in histories; NESTED "
                   "spawning (a spawned thread is the handle owner of another: inner join / drop after / drop before finish / drop at once / spawn failed by "
                   "injected clone or mmap failure x outer join / drop x outer returns / panics x {u64, Box<u64>}, depth 2, thorough also 3; a hanging case is "
                   "re-run in a guard mode that leaves un-signalled handles alone so that leaks can be accounted). A case is non-trivial when it is a distinct "
                   "(scenario, trace/word, fault) tuple. PLUS A SAMPLED PHASE (not enumerated, not counted in evaluations/exhaustive): gate-aligned race sweeps - "
                   "for each pair (handle gate, thread gate) whose following steps touch the same shared word the two parties are parked at their gates and "
                   "released together with a skew of -64..+64 pauses, thousands of threads per pair, same per-allocation / value oracles per batch of 200; "
                   "this samples the orderings INSIDE the ungated windows, which schedule replay cannot order. Every gated/ungated run also checks the "
                   "post-condition of the exit-word wait at the gate after it (word == 0), and every FUTEX_WAIT on an exit word in the fault-free logs is "
                   "inspected: only if one carries a timeout, each trace in which the handle owner sleeps before the thread's exit is re-run with that wait "
                   "answered ETIMEDOUT (strace injection) while the thread stays parked; the same traces are always re-run with that wait answered by a "
                   "spurious return (0 without a wake) and by EINTR twice in a row - legal for every FUTEX_WAIT." % (", 3" if tier == "thorough" else "", "all trace pairs (canonical linearisations)" if tier == "thorough" else "a sample",
                                                            64 if tier == "thorough" else 8, 2000 if tier == "thorough" else 200))
    if tier != "thorough":
        rep["exhaustive"] = False
        rep["caps_hit"].append("quick tier: two-thread gate schedules and ungated thread counts are a subset (thorough: all)")
    rep["notes"].append("gate replay orders steps at gate granularity only; x86_64 debug build of the probe")
    rep["notes"].append("SAMPLED: gate-aligned race sweeps (%d threads, %d released together) probe the windows between gates; a clean sweep is evidence, not proof" %
                        (sampled["threads"], sampled["aligned"]))
    if data.get("from_cache"):
        rep["notes"].append("probe executions shared with the other property's run (cache %s)" % data["stamp"][:12])
    return rep


def replay_case(prop, rp, env):
    binp = build_probe(env)
    case = rp.get("replay", rp)
    if case.get("kind") == "model":
        cfg = Cfg([tuple(t) for t in case["threads"]], case["order"])
        r = explore(cfg)
        hit = case["invariant"] in r["errors"]
        print("model %r order %s: invariant %s %s" % (case["threads"], case["order"], case["invariant"], "VIOLATED" if hit else "holds"))
        if hit:
            print("  trace: " + sched_string(r["errors"][case["invariant"]]))
        return 1 if hit else 0
    c, vs, info = run_case(binp, case)
    cleanup_tmp()
    print("case %s" % case.get("name"))
    print("  probe argv: %s%s" % (" ".join(info.get("argv", [])), ("   [strace inject=%s]" % case["inject"]) if case.get("inject") else ""))
    print("  outcome: %s" % info.get("outcome"))
    mine = [(k, d) for k, d in vs if k.startswith(prop + ":") or k.startswith("MACHINERY")]
    for k, d in vs:
        print("  %s %s: %s" % ("VIOLATION" if (k, d) in mine else "(other property)", k, d))
    if not vs:
        print("  no violation")
    return 1 if mine else 0


def _run(prop, tier="quick", seed=0, out=None, step=None, build=None, bin_path=None, env=None, replay=None, **_kw):
    if replay is not None:
        return replay_case(prop, replay, env)
    data = collect(tier, env)
    rep = make_report(prop, tier, data)
    if out:
        with open(out, "w") as f:
            json.dump(rep, f, indent=1)
    return rep


def run_c05(**kw):
    return _run("C05", **kw)


def run_c06(**kw):
    return _run("C06", **kw)


if __name__ == "__main__":
    # python3 steps_thread.py C05|C06 [quick|thorough] [--no-cache]
    prop = sys.argv[1] if len(sys.argv) > 1 else "C05"
    tier = sys.argv[2] if len(sys.argv) > 2 else "quick"
    t0 = time.time()
    data = collect(tier, use_cache="--no-cache" not in sys.argv)
    rep = make_report(prop, tier, data)
    print(json.dumps({k: rep[k] for k in ("evaluations", "distinct_nontrivial", "states", "transitions", "traces_validated_against_impl",
                                          "outcomes", "bounds", "notes", "caps_hit")}, indent=1))
    for v in rep["violations"]:
        print("VIOLATION %s x%d: %s" % (v["key"], v["count"], v["desc"]))
    print("wall %.1fs (collect %.1fs%s)" % (time.time() - t0, data["wall"], ", cached" if data.get("from_cache") else ""))
