"""C07, end-to-end half (DESIGN.md S3 / 4.7): real executables started through tiny-std's `_start`.

The probe /verif/engines/probe-start is built from the repository's current tree in every legal cell of
feature set (FEATURE_SETS below: executable / aux / no aux / threaded variants) x the three link modes x
{debug, release}; every binary is exec'd (fork + raw execve, so that argv and envp
are arbitrary byte strings, argv may be empty, envp may hold duplicates and entries without '=')
with an enumerated family of (argv, envp, lookup keys).  The probe echoes, length-prefixed, what
tiny-std handed to the program; this module compares byte for byte with what was passed to
execve and with the /proc/self/auxv of that very process.

Registry step (kind "py"):
    dict(kind="py", fn="c07_start", name="start-e2e", pkg="probe-start", bin="probe-start",
         phase=None, builds=steps_start.SETUP_BUILDS)
and  PYSTEPS["c07_start"] = steps_start.c07_start

Environment:
    VERIF_START_REPO=<dir>   build the probe against <dir>/{tiny-std,tiny-start,rusl} instead of
                             /repo (a copy of the probe crate with rewritten paths and its target
                             dirs are placed under <dir>/.probe-start/, so removing <dir> removes
                             everything).  Used to demonstrate detection on a mutated copy.
    VERIF_START_JOBS=<n>     parallel probe processes (default min(16, cpus))

Stand-alone:  python3 /verif/lib/steps_start.py [quick|thorough] [--json FILE]
"""
import concurrent.futures
import ctypes
import json
import multiprocessing
import os
import select
import shutil
import signal
import struct
import subprocess
import sys
import time

ROOT = os.path.dirname(os.path.dirname(os.path.abspath(__file__)))
PROBE_SRC = os.path.join(ROOT, "engines", "probe-start")
TARGET_ROOT = os.path.join(ROOT, "target-probe-start")
TRIPLE = "x86_64-unknown-linux-gnu"
BASE_FLAGS = "-C panic=abort -C link-arg=-nostartfiles"
MODES = [
    ("dyn", ""),  # dynamic PIE, the default
    ("static", "-C target-feature=+crt-static -C relocation-model=static"),
    ("staticpie", "-C target-feature=+crt-static -C relocation-model=pie"),
]
PROFILES = ["debug", "release"]
CONFIGS = [(m, p) for m, _ in MODES for p in PROFILES]  # the six (mode, profile) pairs of one feature set

# FEATURE SETS under which a binary can legally be started through tiny-std's `_start` (read off
# tiny-std/Cargo.toml + tiny-start/Cargo.toml and the `cfg(feature` sites in tiny-start/src and
# tiny-std/src/{start,env,elf}*): `_start`/`__proxy_main` need start+symbols; `aux` selects the other copy of
# tiny_start::start::resolve (aux collection + self-relocation); `vdso` (needs aux) adds init_vdso_get_time();
# `threaded` (needs alloc + an allocator) adds the main-thread TLS block.  `alloc` alone changes nothing on the
# start-up path and is covered through `threaded`.  Without `aux` nothing relocates a static PIE (documented at
# tiny_start::start::resolve: "this will segfault"), so that cell is not legal.
#   name, cargo feature of the probe, tiny-std features it needs, what is compiled, legal link modes
FEATURE_SETS = [
    dict(name="exe", feat="fs-exe", needs=["executable"], aux=True, vdso=True, threaded=False, modes=("dyn", "static", "staticpie")),
    dict(name="aux", feat="fs-aux", needs=["start", "symbols", "aux"], aux=True, vdso=False, threaded=False, modes=("dyn", "static", "staticpie")),
    dict(name="noaux", feat="fs-noaux", needs=["start", "symbols"], aux=False, vdso=False, threaded=False, modes=("dyn", "static")),
    dict(name="exe-threaded", feat="fs-exe-threaded", needs=["executable", "threaded", "global-allocator"], aux=True, vdso=True, threaded=True,
         modes=("dyn", "static", "staticpie")),
    dict(name="noaux-threaded", feat="fs-noaux-threaded", needs=["start", "symbols", "threaded", "global-allocator"], aux=False, vdso=False,
         threaded=True, modes=("dyn", "static")),
]
FS_BY = {f["name"]: f for f in FEATURE_SETS}
# every legal (feature set, mode, profile) cell; "exe" first so that the full sweep's keys stay as they were
CELLS = [(f["name"], m, p) for f in FEATURE_SETS for m, _ in MODES if m in f["modes"] for p in PROFILES]
ILLEGAL_CELLS = [(f["name"], m) for f in FEATURE_SETS for m, _ in MODES if m not in f["modes"]]


def cfg_name(fs, mode, profile):
    """`<mode>-<profile>` for the `executable` umbrella (as before), `<mode>-<feature set>-<profile>` otherwise"""
    return f"{mode}-{profile}" if fs == "exe" else f"{mode}-{fs}-{profile}"


def cell_of(cfg):
    parts = cfg.split("-")
    mode, profile, fs = parts[0], parts[-1], "-".join(parts[1:-1]) or "exe"
    if fs not in FS_BY or mode not in dict(MODES) or profile not in PROFILES:
        _machinery(f"unknown configuration name {cfg}")
    return fs, mode, profile


def _target_sub(fs, mode):
    return mode if fs == "exe" else f"{mode}.{fs}"
N_PAIRS = 1000
EXEC_TIMEOUT = 30.0


def _rustflags(mode):
    extra = dict(MODES)[mode]
    return (BASE_FLAGS + " " + extra).strip()


# what `./check --setup` can prebuild (same environment as _cargo_build, so nothing is rebuilt later)
SETUP_BUILDS = [
    dict(pkg="probe-start", bin="probe-start", cwd=PROBE_SRC, target_dir=os.path.join(TARGET_ROOT, _target_sub(fs, m)),
         profile=("dev" if p == "debug" else "release"), features=[FS_BY[fs]["feat"]],
         build_env={"RUSTFLAGS": _rustflags(m), "CARGO_BUILD_TARGET": TRIPLE})
    for fs, m, p in CELLS
]


def _machinery(msg):
    print(f"MACHINERY-FAILURE: {msg}", flush=True)
    sys.exit(2)


# --------------------------------------------------------------------------- building

def _crate_and_targets():
    """(crate dir, target root, repo root) honouring VERIF_START_REPO."""
    alt = os.environ.get("VERIF_START_REPO")
    if not alt:
        return PROBE_SRC, TARGET_ROOT, "/repo"
    alt = os.path.abspath(alt)
    for sub in ("tiny-std", "tiny-start", "rusl"):
        if not os.path.isdir(os.path.join(alt, sub)):
            _machinery(f"VERIF_START_REPO={alt} lacks {sub}/")
    base = os.path.join(alt, ".probe-start")
    crate = os.path.join(base, "crate")
    os.makedirs(os.path.join(crate, "src"), exist_ok=True)
    manifest = open(os.path.join(PROBE_SRC, "Cargo.toml")).read().replace('"/repo/', '"' + alt + "/")
    for rel, data in (("Cargo.toml", manifest),
                      ("Cargo.lock", open(os.path.join(PROBE_SRC, "Cargo.lock")).read()),
                      ("src/main.rs", open(os.path.join(PROBE_SRC, "src", "main.rs")).read())):
        path = os.path.join(crate, rel)
        if not os.path.exists(path) or open(path).read() != data:
            open(path, "w").write(data)
    return crate, os.path.join(base, "target"), alt


def _bin_path(target_root, fs, mode, profile):
    return os.path.join(target_root, _target_sub(fs, mode), TRIPLE, profile, "probe-start")


def repo_features(repo):
    """names in the [features] table of <repo>/tiny-std/Cargo.toml"""
    names, inside = set(), False
    try:
        for line in open(os.path.join(repo, "tiny-std", "Cargo.toml")):
            line = line.strip()
            if line.startswith("["):
                inside = line == "[features]"
            elif inside and "=" in line and not line.startswith("#"):
                names.add(line.split("=")[0].strip())
    except OSError:
        pass
    return names


def _cargo_build(crate, target_root, fs, mode, profile, env):
    e = dict(env)
    for k in ("CARGO_ENCODED_RUSTFLAGS", "CARGO_BUILD_RUSTFLAGS", "RUSTC_WRAPPER"):
        e.pop(k, None)
    e["CARGO_NET_OFFLINE"] = "true"
    e["RUSTFLAGS"] = _rustflags(mode)
    e["CARGO_BUILD_TARGET"] = TRIPLE
    e["CARGO_TARGET_DIR"] = os.path.join(target_root, _target_sub(fs, mode))
    e.setdefault("CARGO_TERM_COLOR", "never")
    cmd = ["cargo", "build", "--offline", "-p", "probe-start", "--bin", "probe-start"]
    if profile == "release":
        cmd += ["--profile", "release"]
    cmd += ["--features", FS_BY[fs]["feat"]]
    t0 = time.time()
    p = subprocess.run(cmd, cwd=crate, env=e, stdout=subprocess.PIPE, stderr=subprocess.STDOUT, text=True)
    path = _bin_path(target_root, fs, mode, profile)
    ok = p.returncode == 0 and os.path.exists(path)
    tail = ""
    if not ok:
        lines = [l for l in p.stdout.splitlines() if l.startswith("error") or "undefined" in l]
        tail = " | ".join((lines or p.stdout.splitlines()[-6:])[:6])[:600]
    return dict(fs=fs, mode=mode, profile=profile, ok=ok, path=path, secs=round(time.time() - t0, 1), err=tail)


def builds(env=None, cells=None):
    """Build the probe in every legal (feature set, link mode, profile) cell, in parallel; cargo makes this a
    no-op when nothing changed in the repository tree.  Returns {cfg_name: {fs, mode, profile, ok, path, secs, err}}."""
    env = dict(os.environ if env is None else env)
    crate, target_root, _ = _crate_and_targets()
    cells = cells or CELLS
    out = {}
    with concurrent.futures.ThreadPoolExecutor(max_workers=min(16, len(cells))) as ex:
        futs = [ex.submit(_cargo_build, crate, target_root, fs, m, p, env) for fs, m, p in cells]
        for f in futs:
            r = f.result()
            out[cfg_name(r["fs"], r["mode"], r["profile"])] = r
    return out


# --------------------------------------------------------------------------- ELF symbols

def _elf_symbols(path, wanted):
    """{substring: (value, size)} for the first .symtab symbol whose name contains the substring."""
    data = open(path, "rb").read()
    if data[:4] != b"\x7fELF" or data[4] != 2:
        return {}
    e_shoff, = struct.unpack_from("<Q", data, 0x28)
    e_shentsize, e_shnum = struct.unpack_from("<HH", data, 0x3A)
    secs = [struct.unpack_from("<IIQQQQIIQQ", data, e_shoff + i * e_shentsize) for i in range(e_shnum)]
    found = {}
    for s in secs:
        if s[1] != 2:  # SHT_SYMTAB
            continue
        stro = secs[s[6]][4]
        for off in range(s[4], s[4] + s[5], 24):
            st_name, _info, _other, _shndx, st_value, st_size = struct.unpack_from("<IBBHQQ", data, off)
            end = data.index(b"\0", stro + st_name)
            name = data[stro + st_name:end].decode("latin-1")
            for w in wanted:
                if w not in found and w in name:
                    found[w] = (st_value, st_size)
    return found


SYM_ANCHOR = "PROBE_ANCHOR"
SYM_AUX = "tiny_std3elf3aux10AUX_VALUES"
SYM_VDSO = "tiny_std3elf4vdso19VDSO_CLOCK_GET_TIME"


def _peek_plan(path):
    """[(name, delta from anchor, length)] for the private statics the probe is asked to dump."""
    syms = _elf_symbols(path, [SYM_ANCHOR, SYM_AUX, SYM_VDSO])
    plan = []
    if SYM_ANCHOR in syms:
        a = syms[SYM_ANCHOR][0]
        if SYM_AUX in syms and 0 < syms[SYM_AUX][1] <= 256:
            plan.append(("aux", syms[SYM_AUX][0] - a, syms[SYM_AUX][1]))
        if SYM_VDSO in syms:
            plan.append(("vdso", syms[SYM_VDSO][0] - a, 8))
    return plan


# --------------------------------------------------------------------------- raw exec

_libc = None


def _execve_child(path, argv, envp, fds, ids):
    """In the forked child: wire the pipes, execve with exactly argv/envp.  Never returns."""
    try:
        in_r, out_w, err_w = fds
        os.dup2(in_r, 0)
        os.dup2(out_w, 1)
        os.dup2(err_w, 2)
        if ids:
            # distinct non-zero real ids so that AT_UID / AT_GID are not both 0 (driver runs as root)
            os.setgroups([])
            if len(ids) == 2:
                os.setgid(ids[1])
                os.setuid(ids[0])
            else:
                # split credentials: real != effective != saved (AT_UID vs AT_EUID, AT_GID vs AT_EGID differ,
                # AT_SECURE becomes 1, /proc/self/auxv becomes unreadable for the process itself)
                os.setresgid(ids[1], ids[3], ids[3] + 1)
                os.setresuid(ids[0], ids[2], ids[2] + 1)
        argv_arr = (ctypes.c_char_p * (len(argv) + 1))(*argv, None)
        envp_arr = (ctypes.c_char_p * (len(envp) + 1))(*envp, None)
        _libc.execve(ctypes.c_char_p(path), argv_arr, envp_arr)
        os.write(2, b"execve failed errno=%d\n" % ctypes.get_errno())
    finally:
        os._exit(126)


def run_exec(path, argv, envp, stdin_data=b"", timeout=EXEC_TIMEOUT, ids=None):
    """execve(path, argv, envp) in a child; returns (kind, code, stdout, stderr) with kind in
    'exit' | 'signal' | 'timeout'.  Must be called from a single-threaded process."""
    global _libc
    if _libc is None:
        _libc = ctypes.CDLL(None, use_errno=True)
        _libc.execve.argtypes = [ctypes.c_char_p, ctypes.POINTER(ctypes.c_char_p), ctypes.POINTER(ctypes.c_char_p)]
    pathb = os.fsencode(path)
    in_r, in_w = os.pipe()
    out_r, out_w = os.pipe()
    err_r, err_w = os.pipe()
    pid = os.fork()
    if pid == 0:
        _execve_child(pathb, argv, envp, (in_r, out_w, err_w), ids)
    for fd in (in_r, out_w, err_w):
        os.close(fd)
    try:
        os.write(in_w, stdin_data)  # tiny (< PIPE_BUF)
    except OSError:
        pass
    os.close(in_w)
    bufs = {out_r: [], err_r: []}
    open_fds = {out_r, err_r}
    deadline = time.time() + timeout
    timed_out = False
    while open_fds:
        left = deadline - time.time()
        if left <= 0:
            timed_out = True
            break
        r, _, _ = select.select(list(open_fds), [], [], left)
        for fd in r:
            chunk = os.read(fd, 1 << 16)
            if chunk:
                bufs[fd].append(chunk)
            else:
                open_fds.discard(fd)
    if timed_out:
        try:
            os.kill(pid, signal.SIGKILL)
        except OSError:
            pass
    _, status = os.waitpid(pid, 0)
    for fd in (out_r, err_r):
        os.close(fd)
    out, err = b"".join(bufs[out_r]), b"".join(bufs[err_r])
    if timed_out:
        return "timeout", 0, out, err
    if os.WIFSIGNALED(status):
        return "signal", os.WTERMSIG(status), out, err
    return "exit", os.WEXITSTATUS(status), out, err


# --------------------------------------------------------------------------- shapes

K100 = 100 * 1024

# name -> (argv without keys, may carry "--keys" + keys?)  Simplest first.
ARGV_SHAPES = [
    ("argv0-only", [b"probe"], False),
    ("one-arg", [b"probe", b"a"], True),
    ("argc0", [], False),
    ("argv0-empty", [b""], False),
    ("argv0-arbitrary", [b"not/the real=path"], True),
    ("empty-at-1", [b"probe", b"", b"x", b"y"], True),
    ("empty-at-2", [b"probe", b"x", b"", b"y"], True),
    ("empty-last", [b"probe", b"x", b"y", b""], True),
    ("all-empty", [b"", b"", b""], True),
    ("nonutf8", [b"probe", b"\xff\xfe", b"ok"], True),
    ("nonutf8-argv0", [b"\xff\xfe", b"ok"], True),
    ("utf8-edge", [b"probe", b"caf\xc3\xa9", b"\xc3", b"a\x80b", b"\xed\xa0\x80", b"\xf0\x9f\x98\x80"], True),
    ("eq-and-spaces", [b"probe", b"A=b", b"with space", b"=", b"a=b=c", b" "], True),
    ("looks-like-env", [b"probe", b"HOME=/fake", b"A=argv", b"PATH=/nowhere"], True),
    ("control-bytes", [b"probe", b"a\nb", b"\t", b"\x01\x7f"], True),
    ("keys-marker-inside", [b"probe", b"x", b"--keys", b"A"], True),
    ("long-100k", [b"probe", b"L" * K100], True),
    ("long-100k-bad-tail", [b"probe", b"L" * (K100 - 1) + b"\xff", b"z"], True),
    ("many-1000", [b"probe"] + [b"%d" % i for i in range(1000)], True),
]

TYPICAL_ENV = [b"SHELL=/bin/bash", b"HOME=/root", b"LANG=C.UTF-8", b"PATH=/usr/local/bin:/usr/bin:/bin",
               b"TERM=xterm-256color", b"USER=root", b"PWD=/", b"LS_COLORS=rs=0:di=01;34:ln=01;36",
               b"HOMEDIR=/elsewhere", b"_=/usr/bin/env"]

# name -> (envp, keys)   keys: present, absent, prefix of a present name, extension of one
ENV_SHAPES = [
    ("empty", [], [b"HOME", b"A"]),
    ("one", [b"HOME=/root"], [b"HOME", b"HOM", b"HOMEX", b"A"]),
    ("dup-first-wins", [b"A=1", b"A=2"], [b"A", b"B"]),
    ("dup-interleaved", [b"A=1", b"B=x", b"A=2", b"B="], [b"A", b"B", b"C"]),
    ("prefix-short-first", [b"HO=x", b"HOME=y"], [b"HOME", b"HO", b"H", b"HOMER"]),
    ("prefix-long-first", [b"HOME=y", b"HO=x"], [b"HOME", b"HO", b"H", b"HOMER"]),
    ("key-extends-name", [b"HOMER=x"], [b"HOME", b"HOMER", b"HOMERS"]),
    ("empty-value", [b"A=", b"B=b"], [b"A", b"B", b"C"]),
    ("value-with-eq", [b"A=b=c", b"D=="], [b"A", b"A=b", b"b", b"D", b"D="]),
    ("typical", TYPICAL_ENV, [b"HOME", b"PATH", b"HOM", b"HOMED", b"HOMEDIR", b"HOMEDIRS", b"_", b"NOPE"]),
    ("entry-without-eq", [b"JUSTNAME", b"A=1"], [b"JUSTNAME", b"JUST", b"A"]),
    ("bare-name-then-real", [b"A", b"A=1"], [b"A", b"B"]),
    ("empty-name", [b"=x", b"A=1"], [b"A", b"", b"x"]),
    ("eq-only-and-empty-entry", [b"=", b"", b"A=1"], [b"A", b"B"]),
    ("nonutf8-value", [b"A=\xff\xfe", b"B=ok"], [b"A", b"B", b"C"]),
    ("nonutf8-name", [b"\xffN=v", b"A=1"], [b"\xffN", b"\xff", b"A"]),
    ("dup-bad-utf8-second", [b"A=ok", b"A=\xff"], [b"A"]),
    ("dup-bad-utf8-first", [b"A=\xff", b"A=ok"], [b"A"]),
    ("spaces-newlines", [b"A= b c ", b"B=line1\nline2", b"C D=e"], [b"A", b"B", b"C D", b"C"]),
    ("long-name", [b"N" * 1000 + b"=v", b"N=short"], [b"N" * 1000, b"N" * 999, b"N" * 1001, b"N"]),
    ("long-100k-value", [b"BIG=" + b"v" * K100, b"A=1"], [b"BIG", b"BI", b"BIGG", b"A"]),
    ("many-1000", [b"V%d=%d" % (i, i * i) for i in range(1000)], [b"V0", b"V999", b"V500", b"V99", b"V1000", b"V", b"V5000"]),
    ("many-1000-dups", [b"V%d=%d" % (i % 10, i) for i in range(1000)], [b"V0", b"V9", b"V10"]),
    ("utf8-multibyte", [b"K\xc3\xa9Y=caf\xc3\xa9", b"K\xc3=x"], [b"K\xc3\xa9Y", b"K\xc3", b"K"]),
]

# thorough only: sweep of the pointer-array lengths (argc 2..16, 2..16 environment entries) with
# string lengths cycling 0..6, so that the auxiliary vector and the string area sit at every
# alignment relative to the stack pointer
QUICK_ARGV = [n for n, _, _ in ARGV_SHAPES]
QUICK_ENV = [n for n, _, _ in ENV_SHAPES]
for _k in range(2, 17):
    ARGV_SHAPES.append((f"argc-{_k}", [b"p"] + [b"abcdefg"[: (i * 3 + _k) % 7] for i in range(_k - 1)], True))
    ENV_SHAPES.append((f"envc-{_k}", [b"N%d=%s" % (i, b"vwxyz01"[: (i * 5 + _k) % 7]) for i in range(_k)],
                       [b"N0", b"N%d" % (_k - 1), b"N%d" % _k, b"N"]))

# three plain entries: the first, the last and a middle one are looked up (used by the reduced sweep)
ENV_SHAPES.append(("three", [b"A=first", b"B=mid", b"C=last"], [b"A", b"C", b"B", b"D"]))
QUICK_ENV.append("three")
ENV_SHAPES.append(("fixed-key-last", [b"A=1", b"C07_PROBE_ALWAY=short", b"C07_PROBE_ALWAYS=here", b"C07_PROBE_ALWAYS=second"], [b"A", b"C07_PROBE_ALWAYS"]))
QUICK_ENV.append("fixed-key-last")

ARGV_BY = {n: (a, k) for n, a, k in ARGV_SHAPES}
ENV_BY = {n: (e, k) for n, e, k in ENV_SHAPES}


def shape_pairs(tier):
    """(argv shape, env shape) pairs.  quick: every argv shape with the typical environment, every
    env shape with a plain argv, plus a diagonal of mixed pairs; thorough: the full Cartesian grid."""
    if tier == "thorough":
        return [(a, e) for a, _, _ in ARGV_SHAPES for e, _, _ in ENV_SHAPES]
    an, en = QUICK_ARGV, QUICK_ENV
    pairs = []
    for e in en:
        pairs.append(("one-arg", e))
    for a in an:
        if (a, "typical") not in pairs:
            pairs.append((a, "typical"))
    # diagonal: pair the i-th argv shape with a rotating env shape (skipping the plain ones)
    rest_e = [e for e in en if e != "typical"]
    rest_a = [a for a in an if a != "one-arg"]
    for i, a in enumerate(rest_a):
        p = (a, rest_e[(i * 5 + 3) % len(rest_e)])
        if p not in pairs:
            pairs.append(p)
    return pairs


def reduced_pairs():
    """Quick-tier sweep of the feature sets other than `executable`: argc in {0, 1, >= 3 (with lookup keys)} x
    envp in {empty, one entry, three entries (first / last / middle entry wanted), typical, prefix names}."""
    return [(a, e) for a in ("argv0-only", "one-arg", "argc0") for e in ("empty", "one", "three")] + \
           [("one-arg", "prefix-short-first"), ("one-arg", "typical"), ("one-arg", "dup-first-wins"), ("argv0-only", "fixed-key-last")]


def materialise(argv_shape, env_shape):
    """(argv, envp, keys) exactly as handed to execve."""
    argv, with_keys = ARGV_BY[argv_shape]
    envp, keys = ENV_BY[env_shape]
    argv = list(argv)
    if with_keys:
        argv = argv + [b"--keys"] + list(keys)
    return argv, list(envp)


# --------------------------------------------------------------------------- oracle

def _show(b, n=48):
    if len(b) <= n:
        return repr(b)[1:]
    return f"{repr(b[:n])[1:]}...({len(b)} bytes)"


def _show_list(l, n=8):
    s = [_show(x, 32) for x in l[:n]]
    if len(l) > n:
        s.append(f"...({len(l)} items)")
    return "[" + ", ".join(s) + "]"


def parse_records(out):
    recs, o = [], 0
    while o < len(out):
        if o + 5 > len(out):
            return recs, False
        tag = out[o:o + 1]
        ln, = struct.unpack_from("<I", out, o + 1)
        if o + 5 + ln > len(out):
            return recs, False
        recs.append((tag, out[o + 5:o + 5 + ln]))
        o += 5 + ln
    return recs, True


FIXED_KEY = b"C07_PROBE_ALWAYS"


def ref_lookup(envp, key):
    """value of the first entry whose bytes before the first '=' equal the key"""
    for e in envp:
        p = e.find(b"=")
        if p >= 0 and e[:p] == key:
            return e[p + 1:]
    return None


def _is_utf8(b):
    try:
        b.decode("utf-8")
        return True
    except UnicodeDecodeError:
        return False


def parse_auxv(raw):
    d = {}
    for o in range(0, len(raw) - 15, 16):
        k, v = struct.unpack_from("<QQ", raw, o)
        if k == 0:
            break
        d.setdefault(k, v)
    return d


AT = dict(at_phdr=3, at_phent=4, at_phnum=5, at_base=7, at_uid=11, at_gid=13, at_secure=23, at_random=25,
          at_execfn=31, at_sysinfo_ehdr=33)
AUX_FIELD_ORDER = ["at_base", "at_gid", "at_uid", "at_phdr", "at_phent", "at_phnum", "at_random", "at_secure",
                   "at_sysinfo_ehdr", "at_execfn"]


def judge(path, argv, envp, exit_code, peek_plan, res, ids=None, fs="exe"):
    """Compare one run with what was passed.  Returns (problems [(key suffix, text)], outcomes [str], facts)."""
    kind, code, out, err = res
    problems, outcomes, facts = [], [], {}
    recs, whole = parse_records(out)
    tags = [t for t, _ in recs]
    complete = whole and b"Z" in tags
    errtxt = err[:200].decode("latin-1")
    if kind == "timeout":
        problems.append(("crash", f"no exit within {EXEC_TIMEOUT}s (killed); {len(recs)} records received; stderr={errtxt!r}"))
        return problems, ["run:timeout"], facts
    if kind == "signal":
        problems.append(("crash", f"killed by signal {code} ({signal.Signals(code).name if code in signal.Signals._value2member_map_ else '?'}) "
                                  f"after {len(recs)} records; stderr={errtxt!r}"))
        return problems, ["run:signal"], facts
    if not complete:
        problems.append(("crash", f"abnormal exit: status {code}, output incomplete ({len(recs)} records, {len(out)} bytes); stderr={errtxt!r}"))
        return problems, ["run:abnormal-exit"], facts
    if code != exit_code:
        problems.append(("exit-status-differs", f"main returned {exit_code}, process exit status is {code}; stderr={errtxt!r}"))
    by = {}
    for t, p in recs:
        by.setdefault(t, []).append(p)

    fsd = FS_BY[fs]
    if b"F" in by:
        flags = by[b"F"][0][0]
        fs_base, = struct.unpack_from("<Q", by[b"F"][0], 1)
        if flags != (int(fsd["aux"]) | int(fsd["vdso"]) << 1 | int(fsd["threaded"]) << 2):
            facts["feature_flags_mismatch"] = flags
        if fsd["threaded"]:
            outcomes.append("tls:fs-base-installed" if fs_base else "tls:fs-base-zero")

    # ---- arguments
    expect_argv = [argv] if argv else [[], [b""]]  # Linux >= 5.18 turns an empty argv into [""]
    got_os = by.get(b"A", [])
    n_os, n_args = struct.unpack("<QQ", by[b"n"][0])
    if got_os not in expect_argv:
        i = next((i for i, (x, y) in enumerate(zip(got_os, argv)) if x != y), min(len(got_os), len(argv)))
        problems.append(("args_os-differs", f"args_os() yields {len(got_os)} items {_show_list(got_os)}, execve was given {len(argv)} "
                                            f"{_show_list(argv)}; first difference at index {i}"))
    elif n_os != len(got_os) or n_args != len(got_os):
        problems.append(("args_os-differs", f"args_os().len()={n_os}, args().len()={n_args}, but {len(got_os)} arguments were passed"))
    if not argv:
        outcomes.append("argc0:kernel-substituted-empty-argv0" if got_os == [b""] else "argc0:seen-as-zero-arguments")
    eff_argv = got_os if (not argv and got_os in expect_argv) else argv
    want_args = [(b"\0" + a) if _is_utf8(a) else b"\x01" for a in eff_argv]
    got_args = by.get(b"a", [])
    if got_args != want_args:
        i = next((i for i, (x, y) in enumerate(zip(got_args, want_args)) if x != y), min(len(got_args), len(want_args)))
        problems.append(("args-differs", f"args() item {i}: got {_show(got_args[i]) if i < len(got_args) else 'nothing'}, want "
                                         f"{_show(want_args[i]) if i < len(want_args) else 'nothing'} (leading 0=Ok(text), 1=Err); argv={_show_list(argv)}"))
    outcomes.append("args:all-utf8" if all(w[:1] == b"\0" for w in want_args) else "args:some-not-utf8")

    # ---- environment lookups
    keys = eff_argv[eff_argv.index(b"--keys") + 1:] if b"--keys" in eff_argv else []
    got_keys = by.get(b"K", [])
    us, vs = by.get(b"U", []), by.get(b"V", [])
    if got_keys != keys or len(us) != len(keys) or len(vs) != len(keys):
        if got_os in expect_argv:
            problems.append(("var_unix-wrong", f"probe looked up keys {_show_list(got_keys)} but was given {_show_list(keys)}"))
    else:
        for k, u, v in zip(keys, us, vs):
            if k == b"" or b"=" in k:
                outcomes.append("lookup:key-not-judged")
                continue
            want = ref_lookup(envp, k)
            want_u = (b"\0" + want) if want is not None else b"\x01"
            if u != want_u:
                problems.append(("var_unix-wrong", f"var_unix({_show(k)}) gave {_decode_lookup(u)}, first matching entry says {_decode_lookup(want_u)}; "
                                                   f"envp={_show_list(envp)}"))
            outcomes.append("var_unix:" + ("found" if want is not None else "missing"))
            if not _is_utf8(k):
                outcomes.append("var:key-not-utf8-not-callable")
                continue
            want_v = b"\x01" if want is None else ((b"\0" + want) if _is_utf8(want) else b"\x02")
            if v != want_v:
                problems.append(("var-wrong", f"var({_show(k)}) gave {_decode_lookup(v)}, first matching entry says {_decode_lookup(want_v)}; "
                                              f"envp={_show_list(envp)}"))
            outcomes.append("var:" + {b"\0": "found", b"\x01": "missing", b"\x02": "not-unicode"}[want_v[:1]])

    # the fixed key every run looks up (walks the whole block when absent), also without `--keys`
    want = ref_lookup(envp, FIXED_KEY)
    want_u = (b"\0" + want) if want is not None else b"\x01"
    want_v = b"\x01" if want is None else ((b"\0" + want) if _is_utf8(want) else b"\x02")
    if by.get(b"W", [None])[0] != want_u:
        problems.append(("var_unix-wrong", f"var_unix({_show(FIXED_KEY)}) gave {_decode_lookup(by[b'W'][0]) if b'W' in by else 'no record'}, "
                                           f"first matching entry says {_decode_lookup(want_u)}; envp={_show_list(envp)}"))
    if by.get(b"w", [None])[0] != want_v:
        problems.append(("var-wrong", f"var({_show(FIXED_KEY)}) gave {_decode_lookup(by[b'w'][0]) if b'w' in by else 'no record'}, "
                                      f"first matching entry says {_decode_lookup(want_v)}; envp={_show_list(envp)}"))
    outcomes.append("fixed-key:" + ("found" if want is not None else "missing-after-full-walk"))

    # ---- auxiliary values (getters and stored struct only where feature `aux` is compiled)
    aux = parse_auxv(by[b"X"][0]) if b"X" in by else None
    peeks = {p[0]: p[1:] for p in by.get(b"P", [])}
    names = [n for n, _, _ in peek_plan]
    if aux is None:
        facts["auxv_unreadable"] = True
        outcomes.append("aux:proc-auxv-unreadable")
    else:
        facts["auxv_keys"] = sorted(aux)
        if (aux.get(11), aux.get(13)) != (tuple(ids[:2]) if ids else (os.getuid(), os.getgid())):
            facts["auxv_uid_mismatch_with_driver"] = True
        if b"E" in by and by[b"E"][0] != os.fsencode(path):
            facts["execfn_not_exec_path"] = _show(by[b"E"][0])
    if not fsd["aux"]:
        outcomes.append("aux:not-compiled-in-this-feature-set")
        if any(t in by for t in (b"u", b"g", b"r", b"e", b"O")):
            facts["feature_flags_mismatch"] = "aux records from a binary without aux"
    elif aux is None:
        if ids and len(ids) == 4 and b"u" in by and b"g" in by:
            # split credentials make the process non-dumpable, so it cannot read its own auxv: compare the getters
            # with the REAL ids the driver installed (AT_UID / AT_GID are the real ids, not the effective ones)
            got_uid, = struct.unpack("<I", by[b"u"][0])
            got_gid, = struct.unpack("<I", by[b"g"][0])
            if got_uid != ids[0]:
                problems.append(("aux-get_uid-differs", f"get_uid()={got_uid} under real uid {ids[0]} / effective uid {ids[2]}: AT_UID is the real uid"))
            if got_gid != ids[1]:
                problems.append(("aux-get_gid-differs", f"get_gid()={got_gid} under real gid {ids[1]} / effective gid {ids[3]}: AT_GID is the real gid"))
            outcomes.append("aux:getters-compared-with-split-credentials")
    else:
        got_uid, = struct.unpack("<I", by[b"u"][0])
        got_gid, = struct.unpack("<I", by[b"g"][0])
        if got_uid != (aux.get(11, 0) & 0xFFFFFFFF):
            problems.append(("aux-get_uid-differs", f"get_uid()={got_uid}, AT_UID in /proc/self/auxv={aux.get(11)}"))
        if got_gid != (aux.get(13, 0) & 0xFFFFFFFF):
            problems.append(("aux-get_gid-differs", f"get_gid()={got_gid}, AT_GID in /proc/self/auxv={aux.get(13)}"))
        r = by[b"r"][0]
        want_r = (b"\x01" + by[b"R"][0]) if aux.get(25) and b"R" in by else b"\0"
        if r != want_r:
            problems.append(("aux-get_random-differs", f"get_random() -> {r.hex()}, bytes at AT_RANDOM -> {want_r.hex()} (leading 01=Some, 00=None)"))
        e = by[b"e"][0]
        want_e = (b"\x01" + by[b"E"][0]) if aux.get(31) and b"E" in by else b"\0"
        if e != want_e:
            problems.append(("aux-get_exec_fn-differs", f"get_exec_fn() -> {_show(e)}, string at AT_EXECFN -> {_show(want_e)} (leading 1=Some, 0=None)"))
        outcomes.append("aux:getters-compared")
        # the stored struct, dumped from the private static
        if "aux" in names and b"O" in by:
            raw = peeks.get(names.index("aux"))
            offs = struct.unpack("<11H", by[b"O"][0])
            if raw is not None and len(raw) >= offs[10]:
                for fname, off in zip(AUX_FIELD_ORDER, offs):
                    have, = struct.unpack_from("<Q", raw, off)
                    want = aux.get(AT[fname], 0)
                    if have != want:
                        problems.append((f"aux-{fname}-differs", f"stored {fname}={have:#x}, /proc/self/auxv says {want:#x}"))
                outcomes.append("aux:stored-struct-compared")
    # ---- clock: library now() against the clock_gettime system call (vDSO clause live only with feature `vdso`)
    ptr = None
    if "vdso" in names:
        raw = peeks.get(names.index("vdso"))
        if raw is not None and len(raw) == 8:
            ptr, = struct.unpack("<Q", raw)
    facts["vdso_ptr_known"] = ptr is not None
    lib_ns = sys_ns = 0
    for t in by.get(b"T", []):
        clk = t[0]
        n, ok, below, above, back = struct.unpack_from("<5I", t, 1)
        tri = struct.unpack_from("<6q", t, 21)
        lib_ns, sys_ns = struct.unpack_from("<QQ", t, 69)
        cname = {0: "CLOCK_REALTIME", 1: "CLOCK_MONOTONIC"}[clk]
        if fsd["vdso"]:
            facts.setdefault("vdso_pairs", 0)
            facts["vdso_pairs"] += ok
        if below or above:
            problems.append(("vdso-disagrees", f"{cname}: {below + above} of {n} library readings outside the two surrounding clock_gettime "
                                               f"system calls ({below} earlier, {above} later); first: before={tri[0]}.{tri[1]:09d} lib={tri[2]}.{tri[3]:09d} "
                                               f"after={tri[4]}.{tri[5]:09d}; vdso pointer={'unknown' if ptr is None else hex(ptr)}"))
        if back:
            outcomes.append("vdso:clock-stepped-back-between-syscalls")
    if not fsd["vdso"]:
        outcomes.append("vdso:feature-off-clause-vacuous")
    elif ptr is None:
        # no symbol table: fall back to timing (informational)
        in_use = lib_ns * 2 < sys_ns
        outcomes.append("vdso:in-use-by-timing" if in_use else "vdso:unknown-or-not-in-use-by-timing")
    elif ptr:
        outcomes.append("vdso:function-found-clause-live")
        if aux and aux.get(33) and not (aux[33] <= ptr < aux[33] + 0x4000):
            facts["vdso_ptr_outside_vdso"] = hex(ptr)
    else:
        outcomes.append("vdso:function-not-found-clause-vacuous" if (aux is None or aux.get(33)) else "vdso:no-vdso-mapped-clause-vacuous")
    facts["lib_ns_per_call"] = lib_ns / N_PAIRS
    facts["sys_ns_per_call"] = sys_ns / N_PAIRS

    # ---- relocation self-check
    if b"L" in by:
        l = by[b"L"][0]
        st = l[0]
        base, n_rela, n_rel, n_wrong, first, rel_sz, relr_sz = struct.unpack_from("<7Q", l, 1)
        if st == 0:
            outcomes.append("reloc:self-relocated-table-checked" if n_rel else "reloc:dynamic-section-without-relative-entries")
            facts["n_relative"] = n_rel
            if n_wrong:
                problems.append(("reloc-unapplied", f"{n_wrong} of {n_rel} R_X86_64_RELATIVE entries do not hold base+addend after start-up "
                                                    f"(first: entry {first} of {n_rela}; load base {base:#x})"))
            if rel_sz or relr_sz:
                facts["other_reloc_tables"] = dict(rel_sz=rel_sz, relr_sz=relr_sz)
        else:
            outcomes.append({1: "reloc:no-dynamic-section", 2: "reloc:no-phdr-in-auxv", 3: "reloc:done-by-interpreter"}.get(st, "reloc:?"))
    return problems, outcomes, facts


def _decode_lookup(b):
    return {0: "found " + _show(b[1:]), 1: "missing", 2: "not-unicode", 3: "not-called"}.get(b[0], "?" + _show(b))


def control_block(exit_code, peek_plan):
    c = b"PSC1" + bytes([exit_code, len(peek_plan)])
    for _, delta, ln in peek_plan:
        c += struct.pack("<qH", delta, ln)
    return c


def exit_code_for(argv_shape, env_shape):
    # anything but 0/1 (1 is what the panic handler exits with), stable per shape
    h = sum((i + 1) * b for i, b in enumerate((argv_shape + "/" + env_shape).encode()))
    return 2 + h % 120


def ids_for(code, switch_ids):
    """real uid/gid the probe runs under: the driver's own for every third shape, else distinct values"""
    if not switch_ids or code % 3 == 0:
        return None
    if code % 3 == 2:
        # (real uid, real gid, effective uid, effective gid)
        return (1000 + code, 2000 + 7 * code, 40000 + code, 50000 + 3 * code)
    return (1000 + code, 2000 + 7 * code)


def run_case(cfg, path, peek_plan, argv_shape, env_shape, switch_ids=False):
    argv, envp = materialise(argv_shape, env_shape)
    code = exit_code_for(argv_shape, env_shape)
    ids = ids_for(code, switch_ids)
    res = run_exec(path, argv, envp, control_block(code, peek_plan), ids=ids)
    problems, outcomes, facts = judge(path, argv, envp, code, peek_plan, res, ids, cell_of(cfg)[0])
    outcomes.append("ids:switched-to-nonzero-uid-gid" if ids else "ids:drivers-own")
    return dict(cfg=cfg, argv_shape=argv_shape, env_shape=env_shape, problems=problems, outcomes=outcomes, facts=facts,
                argv=_show_list(argv, 10), envp=_show_list(envp, 6), exit=code)


def _batch(task):
    cfg, path, peek_plan, pairs, switch_ids = task
    return [run_case(cfg, path, peek_plan, a, e, switch_ids) for a, e in pairs]


# --------------------------------------------------------------------------- the step

RULE = ("End-to-end: the probe executable (started by tiny-std `_start`) is built from the repository tree in every legal cell of "
        "FEATURE SET {executable; start+symbols+aux; start+symbols (no aux: the other copy of resolve()); executable+threaded+global-allocator; "
        "start+symbols+threaded+global-allocator} x LINK MODE {dynamic PIE, static, static PIE (only with aux: nothing else relocates it)} x "
        "{debug, release}; each binary is exec'd by raw execve with (argv shape, envp shape) pairs. The `executable` set gets the full sweep -- "
        "quick: every argv shape with a typical environment, every envp shape with a plain argv, and a diagonal of mixed pairs; thorough: the "
        "full Cartesian grid, extended by argc = 2..16 and 2..16 environment entries with string lengths cycling 0..6. The other feature sets "
        "get, in quick, a reduced sweep (argc in {0, 1, >=3} x envp in {empty, 1 entry, 3 entries with first/last/middle entry wanted} plus "
        "typical, prefix-name and duplicate environments) and in thorough the same full grid. Lookup keys (present, absent, proper prefix of a "
        "present name, extension of one) travel after `--keys`. A case is one exec of one binary; each is distinct by construction. Compared byte "
        "for byte: args_os()==argv, args()==argv where UTF-8 else Err, var_unix/var == first entry whose bytes before the first '=' equal the key "
        "(keys that are empty or contain '=' not judged), exit status == main's return value; where `aux` is compiled: aux getters and the stored "
        "aux struct == that process's /proc/self/auxv, every R_X86_64_RELATIVE slot of a self-relocated image == base+addend. The vDSO clause is "
        "SAMPLED: per exec 1000 readings per clock (MONOTONIC, REALTIME) through tiny-std's now() must each lie between the two clock_gettime "
        "system calls around them (live where `vdso` is compiled, vacuous elsewhere).")


def c07_start(tier="quick", seed=0, out=None, step=None, build=None, bin_path=None, env=None, replay=None):
    env = dict(os.environ if env is None else env)
    if replay is not None:
        return _replay(replay, env)
    t0 = time.time()
    crate, target_root, repo = _crate_and_targets()
    caps, notes = [], []
    have = repo_features(repo)
    cells = []
    for f in FEATURE_SETS:
        missing = [n for n in f["needs"] if n not in have]
        if missing:
            caps.append(f"feature set {f['name']} left out: tiny-std/Cargo.toml in {repo} has no feature {missing}")
        else:
            cells += [c for c in CELLS if c[0] == f["name"]]
    built = builds(env, cells)
    t_build = time.time() - t0
    usable = []
    for fs, m, p in cells:
        cfg = cfg_name(fs, m, p)
        b = built[cfg]
        if b["ok"]:
            usable.append((cfg, b["path"]))
        else:
            caps.append(f"configuration {cfg} (feature set {fs}) does not build from {repo} and was left out: {b['err']}")
    if not usable:
        _machinery("the probe builds in no configuration: " + "; ".join(caps)[:1500])
    notes.append(f"probe built from {repo}; build step {t_build:.1f}s; {len(usable)} configurations run: {', '.join(c for c, _ in usable)}")
    notes.append("cells not legal and not built: " + ", ".join(f"{m}-{fs}" for fs, m in ILLEGAL_CELLS) +
                 " (without `aux` nothing relocates a static PIE; tiny_start::start::resolve documents the segfault)")
    notes.append("release configurations link only because the probe supplies `strlen` itself (rustc 1.95 turns rusl's strlen loop into a "
                 "call to an undefined `strlen`); the repository's own release runners do not link on this toolchain")
    full, reduced = shape_pairs(tier), (shape_pairs(tier) if tier == "thorough" else reduced_pairs())
    jobs = int(os.environ.get("VERIF_START_JOBS", "0") or 0) or min(16, os.cpu_count() or 4)
    tasks = []
    ctx = multiprocessing.get_context("fork")
    switch_ids = _can_switch_ids(usable[0][1], ctx)
    if not switch_ids:
        caps.append("cannot run the probe under another uid/gid (driver not root, binary not reachable for others, or the probe does not even "
                    "complete a plain run): get_uid/get_gid compared for "
                    f"uid={os.getuid()} gid={os.getgid()} only")
    for cfg, path in usable:
        fsd = FS_BY[cell_of(cfg)[0]]
        plan = _peek_plan(path)
        want = [n for n, on in (("aux", fsd["aux"]), ("vdso", fsd["vdso"])) if on]
        lacking = [n for n in want if n not in [x for x, _, _ in plan]]
        if lacking:
            caps.append(f"{cfg}: private statics {lacking} not found in the symbol table; stored aux struct / vDSO pointer not read")
        pairs = full if fsd["name"] == "exe" else reduced
        # heavy shapes spread out: chunk the pairs round-robin
        nchunks = max(1, min(len(pairs), (jobs * 2) // max(1, len(usable)) or 1, len(pairs) // 4 or 1))
        for c in range(nchunks):
            chunk = pairs[c::nchunks]
            if chunk:
                tasks.append((cfg, path, plan, chunk, switch_ids))
    # big batches first so the pool drains evenly
    tasks.sort(key=lambda t: -len(t[3]))
    results = []
    with concurrent.futures.ProcessPoolExecutor(max_workers=jobs, mp_context=ctx) as ex:
        for r in ex.map(_batch, tasks):
            results += r
    # simplest first: order of the shape lists, then configuration
    order_a = {n: i for i, (n, _, _) in enumerate(ARGV_SHAPES)}
    order_e = {n: i for i, (n, _, _) in enumerate(ENV_SHAPES)}
    order_e["three"] = 2.5  # a plain shape: sort it with the plain ones
    order_e["fixed-key-last"] = 2.6
    order_c = {c: i for i, (c, _) in enumerate(usable)}
    results.sort(key=lambda r: (order_a[r["argv_shape"]] + order_e[r["env_shape"]], order_a[r["argv_shape"]], order_e[r["env_shape"]], order_c[r["cfg"]]))
    rep = report_from(results, tier, caps, notes)
    for fs, m in ILLEGAL_CELLS:
        rep["outcomes"][f"cell:{m}-{fs}/not-legal-not-built"] = 1
    rep["bounds"].update(configurations=[c for c, _ in usable], feature_sets=sorted({cell_of(c)[0] for c, _ in usable}),
                         full_sweep_pairs=len(full), reduced_sweep_pairs=len(reduced), jobs=jobs, build_s=round(t_build, 1),
                         run_s=round(time.time() - t0 - t_build, 1))
    if out:
        json.dump(rep, open(out, "w"), indent=1)
    return rep


def _preflight(path):
    kind, code, out, _ = run_exec(path, [b"p"], [], control_block(77, []), ids=(4141, 4242))
    recs, whole = parse_records(out)
    aux = parse_auxv(dict(recs).get(b"X", b""))
    return kind == "exit" and code == 77 and whole and aux.get(11) == 4141 and aux.get(13) == 4242


def _can_switch_ids(path, ctx):
    if os.getuid() != 0:
        return False
    with concurrent.futures.ProcessPoolExecutor(max_workers=1, mp_context=ctx) as ex:
        try:
            return bool(ex.submit(_preflight, path).result())
        except Exception:
            return False


def report_from(results, tier, caps, notes):
    violations, outcomes, samples = {}, {}, []
    comparisons = 0
    vdso_pairs = 0
    odd = {}
    for r in results:
        cfg = r["cfg"]
        ok = not r["problems"]
        for name in ([f"{cfg}/{'ok' if ok else 'violated'}", f"argv:{r['argv_shape']}/{'ok' if ok else 'violated'}",
                      f"env:{r['env_shape']}/{'ok' if ok else 'violated'}"] + sorted(set(r["outcomes"]))):
            outcomes[name] = outcomes.get(name, 0) + 1
        comparisons += len(r["outcomes"])
        vdso_pairs += r["facts"].get("vdso_pairs", 0)
        for k in ("auxv_unreadable", "auxv_uid_mismatch_with_driver", "execfn_not_exec_path", "vdso_ptr_outside_vdso", "other_reloc_tables",
                  "feature_flags_mismatch"):
            if k in r["facts"]:
                odd[k] = odd.get(k, 0) + 1
        for suffix, text in r["problems"]:
            key = f"C07:{cfg}:{suffix}"
            v = violations.get(key)
            if v is None:
                fs = cell_of(cfg)[0]
                violations[key] = dict(key=key, count=1,
                                       desc=f"[feature set {fs} ({'+'.join(FS_BY[fs]['needs'])}), argv shape {r['argv_shape']}, env shape {r['env_shape']}] {text}",
                                       replay=dict(cfg=cfg, feature_set=fs, argv_shape=r["argv_shape"], env_shape=r["env_shape"], argv=r["argv"], envp=r["envp"]))
            else:
                v["count"] += 1
        if len(samples) < 10 and (r["argv_shape"], r["env_shape"]) in (("one-arg", "typical"), ("one-arg", "prefix-short-first"),
                                                                        ("argc0", "typical"), ("nonutf8", "typical")) and r["cfg"].endswith("debug"):
            samples.append(dict(cfg=cfg, argv=r["argv"], envp=r["envp"], exit=r["exit"], verdict="ok" if ok else [p[0] for p in r["problems"]],
                                observed=sorted(set(r["outcomes"]))))
    if not samples:
        samples = [dict(cfg=r["cfg"], argv=r["argv"], envp=r["envp"], verdict=[p[0] for p in r["problems"]] or "ok") for r in results[:4]]
    for k, c in odd.items():
        notes.append(f"driver-side oddity {k} in {c} runs (not judged)")
    n_a = len({r["argv_shape"] for r in results})
    n_e = len({r["env_shape"] for r in results})
    return dict(
        evaluations=len(results), distinct_nontrivial=len(results), samples=samples, violations=list(violations.values()),
        outcomes=outcomes, caps_hit=caps, notes=notes, rule=RULE,
        bounds=dict(tier=tier, shape_pairs=len({(r['argv_shape'], r['env_shape']) for r in results}), argv_shapes=n_a, env_shapes=n_e,
                    individual_checks=comparisons, vdso_sampled_pairs_in_order=vdso_pairs, vdso_pairs_per_exec_per_clock=N_PAIRS,
                    longest_string=K100, most_entries=1000),
        # exhaustive over the stated finite family of shapes (the vDSO clause is sampled; see rule)
        exhaustive=True,
    )


def _replay(d, env):
    rp = d.get("replay", d)
    cfg, a, e = rp["cfg"], rp["argv_shape"], rp["env_shape"]
    fs, mode, profile = cell_of(cfg)
    crate, target_root, repo = _crate_and_targets()
    b = builds(env, [(fs, mode, profile)])[cfg]
    if not b["ok"]:
        _machinery(f"{cfg} does not build: {b['err']}")
    plan = _peek_plan(b["path"])
    ctx = multiprocessing.get_context("fork")
    switch_ids = _can_switch_ids(b["path"], ctx)
    with concurrent.futures.ProcessPoolExecutor(max_workers=1, mp_context=ctx) as ex:
        r = ex.submit(run_case, cfg, b["path"], plan, a, e, switch_ids).result()
    print(f"replay C07 {cfg}: feature set {fs} (tiny-std features {'+'.join(FS_BY[fs]['needs'])}), binary {b['path']} (built from {repo})")
    print(f"  argv shape {a}: {r['argv']}")
    print(f"  env  shape {e}: {r['envp']}")
    print(f"  observed: {', '.join(sorted(set(r['outcomes'])))}")
    if not r["problems"]:
        print("  result: every comparison agreed (no violation)")
        return 0
    for suffix, text in r["problems"]:
        print(f"  VIOLATED C07:{cfg}:{suffix}: {text}")
    return 1


def main(argv):
    tier = "quick"
    js = None
    i = 0
    while i < len(argv):
        if argv[i] in ("quick", "thorough"):
            tier = argv[i]
        elif argv[i] == "--json":
            js = argv[i + 1]
            i += 1
        i += 1
    t0 = time.time()
    rep = c07_start(tier=tier, out=js)
    print(f"C07 start-e2e [{tier}] evaluations={rep['evaluations']} checks={rep['bounds']['individual_checks']} "
          f"violations={len(rep['violations'])} outcomes={len(rep['outcomes'])} wall={time.time() - t0:.1f}s "
          f"(build {rep['bounds']['build_s']}s, run {rep['bounds']['run_s']}s)")
    for v in rep["violations"]:
        print(f"  {v['key']} x{v['count']}: {v['desc'][:400]}")
    for c in rep["caps_hit"]:
        print("  cap:", c[:300])
    for n in rep["notes"]:
        print("  note:", n[:300])
    return 1 if rep["violations"] else 0


if __name__ == "__main__":
    sys.exit(main(sys.argv[1:]))
