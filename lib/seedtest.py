#!/usr/bin/env python3
"""Run the registered quick checks against the seeded property-breaking changes under /verif/seeded.

For each /verif/seeded/<name>/ (patch.diff + meta.json): apply the patch to /repo (git apply), run
`./check <property> --tier quick` (plus any extra properties listed in meta.json "also"), record exit
code and violation keys, and undo the patch straight afterwards (git checkout -- .).  /repo must be
clean before and is left clean.  Never commits anything.

usage: seedtest.py [name ...]        (default: all)
Writes /verif/seeded/RESULTS.json and prints a table.
"""
import json, os, subprocess, sys, time

ROOT = os.path.dirname(os.path.dirname(os.path.abspath(__file__)))
SEEDED = os.path.join(ROOT, "seeded")


def sh(cmd, timeout=None, **kw):
    # own process group, so that a timed-out check does not leave harness shards running on a mutated tree
    import signal
    p = subprocess.Popen(cmd, shell=True, stdout=subprocess.PIPE, stderr=subprocess.STDOUT, text=True, start_new_session=True, **kw)
    try:
        out, _ = p.communicate(timeout=timeout)
    except subprocess.TimeoutExpired:
        os.killpg(p.pid, signal.SIGKILL)
        out, _ = p.communicate()
        return subprocess.CompletedProcess(cmd, 124, out + "\nTIMEOUT", None)
    return subprocess.CompletedProcess(cmd, p.returncode, out, None)


def repo_clean():
    return sh("git -C /repo status --porcelain --untracked-files=no").stdout.strip() == ""


def main():
    names = sys.argv[1:] or sorted(d for d in os.listdir(SEEDED) if os.path.isdir(os.path.join(SEEDED, d)))
    if not repo_clean():
        print("/repo has uncommitted changes; refusing")
        return 2
    results = {}
    if os.path.exists(os.path.join(SEEDED, "RESULTS.json")):
        results = json.load(open(os.path.join(SEEDED, "RESULTS.json")))
    for n in names:
        d = os.path.join(SEEDED, n)
        meta = json.load(open(os.path.join(d, "meta.json")))
        props = [meta["property"]] + meta.get("also", [])
        patch = os.path.join(d, "patch.diff")
        a = sh(f"git -C /repo apply --whitespace=nowarn {patch}")
        if a.returncode != 0:
            results[n] = dict(error="patch does not apply: " + a.stdout[-300:])
            print(f"{n:28s} PATCH DOES NOT APPLY")
            sh("git -C /repo checkout -- .")
            continue
        try:
            res = {}
            for p in props:
                t0 = time.time()
                r = sh(f"./check {p} --tier quick", cwd=ROOT, timeout=1800)
                keys = [l.split("key=")[1].split()[0] for l in r.stdout.splitlines() if l.strip().startswith("key=")]
                res[p] = dict(exit=r.returncode, keys=keys, wall_s=round(time.time() - t0, 1),
                              tail=r.stdout.strip().splitlines()[-1][:300] if r.stdout.strip() else "")
            results[n] = dict(property=meta["property"], summary=meta.get("summary", ""), checks=res,
                              detected=any(v["exit"] == 1 for v in res.values()))
            json.dump(results, open(os.path.join(SEEDED, "RESULTS.json"), "w"), indent=1)
        finally:
            sh("git -C /repo checkout -- .")
            sh("git -C /repo clean -fdq -- rusl tiny-std tiny-start tiny-cli")
        det = results[n].get("detected")
        print(f"{n:28s} {'DETECTED' if det else 'missed  '} " + " ".join(f"{p}:exit{v['exit']}:{','.join(v['keys'][:3])}" for p, v in results[n]["checks"].items()))
    assert repo_clean(), "/repo not clean after seed test!"
    json.dump(results, open(os.path.join(SEEDED, "RESULTS.json"), "w"), indent=1)
    return 0


if __name__ == "__main__":
    sys.exit(main())
