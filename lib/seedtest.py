#!/usr/bin/env python3
"""Run the registered quick checks against the seeded property-breaking changes under /verif/seeded.

For each /verif/seeded/<name>/ (patch.diff + meta.json) the check of the property it breaks (plus any
listed under "also") is run against a PATCHED COPY of /repo inside a private mount namespace:
a copy of /repo's HEAD with the patch applied is bind-mounted over /repo, and /verif/target*,
/verif/work, /verif/evidence, /verif/replays are bind-mounted to seed-only directories, so /repo
itself is never touched, nothing running concurrently sees the change, and no build artefact of a
mutated tree can be mistaken for one of the real tree.  (Equivalent to: git -C /repo apply <patch>;
./check <P>; git -C /repo checkout -- . — which is what to do by hand.)

usage: seedtest.py [name ...]        (default: all)
Writes /verif/seeded/RESULTS.json and prints a table.
"""
import json, os, shutil, signal, subprocess, sys, time

ROOT = os.path.dirname(os.path.dirname(os.path.abspath(__file__)))
SEEDED = os.path.join(ROOT, "seeded")
SCRATCH = os.environ.get("SEEDTEST_SCRATCH", "/tmp/verif-seedrun")
BIND_DIRS = ["target", "target-probe-start", "target-probe-thread", "work", "evidence", "replays"]


def sh(cmd, timeout=None, **kw):
    p = subprocess.Popen(cmd, shell=True, stdout=subprocess.PIPE, stderr=subprocess.STDOUT, text=True, start_new_session=True, **kw)
    try:
        out, _ = p.communicate(timeout=timeout)
    except subprocess.TimeoutExpired:
        os.killpg(p.pid, signal.SIGKILL)
        out, _ = p.communicate()
        return subprocess.CompletedProcess(cmd, 124, out + "\nTIMEOUT", None)
    return subprocess.CompletedProcess(cmd, p.returncode, out, None)


def fresh_repo_copy(dst):
    shutil.rmtree(dst, ignore_errors=True)
    os.makedirs(dst)
    # tracked files of HEAD only (no target/, no leftovers of test runs)
    r = sh(f"git -C /repo archive HEAD | tar -x -C {dst}")
    if r.returncode != 0:
        raise SystemExit("cannot copy /repo: " + r.stdout)
    # test fixtures that tests/harnesses create lazily live in ignored dirs; keep the layout identical
    sh(f"cd {dst} && git init -q && git add -A && git -c user.email=s@e -c user.name=s commit -qm base")


def touch_all(dst):
    # cargo decides freshness of path dependencies by mtime only (a file that goes BACK to an older
    # mtime is not noticed), and the seed-only target directory is reused from one seed to the next:
    # without this, a crate patched by the previous seed and untouched by this one would not be rebuilt
    # and the previous seed's change would still be in the binaries.
    sh(f"find {dst} -type f -not -path '*/.git/*' -exec touch {{}} +")


def main():
    args = sys.argv[1:]
    if args and args[0] == "--jobs":
        # run the given (default: all) seeds in N parallel workers, each with its own scratch directory; results are merged at the end
        n_jobs = int(args[1])
        names = args[2:] or sorted(d for d in os.listdir(SEEDED) if os.path.isdir(os.path.join(SEEDED, d)))
        procs = []
        for j in range(n_jobs):
            part = names[j::n_jobs]
            if not part:
                continue
            env = dict(os.environ, SEEDTEST_SCRATCH=f"{SCRATCH}-{j}", SEEDTEST_RESULTS=os.path.join(SCRATCH + f"-{j}", "RESULTS.part.json"))
            os.makedirs(SCRATCH + f"-{j}", exist_ok=True)
            procs.append((j, subprocess.Popen([sys.executable, os.path.abspath(__file__)] + part, env=env)))
        for j, p in procs:
            p.wait()
        results = json.load(open(os.path.join(SEEDED, "RESULTS.json"))) if os.path.exists(os.path.join(SEEDED, "RESULTS.json")) else {}
        for j, _ in procs:
            f = os.path.join(SCRATCH + f"-{j}", "RESULTS.part.json")
            if os.path.exists(f):
                results.update(json.load(open(f)))
        json.dump(results, open(os.path.join(SEEDED, "RESULTS.json"), "w"), indent=1, sort_keys=True)
        return 0
    names = args or sorted(d for d in os.listdir(SEEDED) if os.path.isdir(os.path.join(SEEDED, d)))
    results = {}
    results_path = os.environ.get("SEEDTEST_RESULTS", os.path.join(SEEDED, "RESULTS.json"))
    part = "SEEDTEST_RESULTS" in os.environ
    if os.path.exists(results_path) and not part:
        results = json.load(open(results_path))
    os.makedirs(SCRATCH, exist_ok=True)
    repo_copy = os.path.join(SCRATCH, "repo")
    head = sh("git -C /repo rev-parse --short HEAD").stdout.strip()
    for n in names:
        d = os.path.join(SEEDED, n)
        meta = json.load(open(os.path.join(d, "meta.json")))
        props = [meta["property"]] + meta.get("also", [])
        if "out_of_scope" in meta:
            # confirmed by the demo, but it does not break the property as stated and quantified (see meta.json): silence is the right answer
            results[n] = dict(property=meta["property"], summary=meta.get("summary", ""), repo_head=head, checks={}, detected=None,
                              out_of_scope=meta["out_of_scope"])
            json.dump(results, open(results_path, "w"), indent=1, sort_keys=True)
            print(f"{n:28s} out of scope of the property (see meta.json)")
            continue
        if "superseded" in meta:
            # the change no longer breaks the property on the current tree (see meta.json); nothing to detect
            results[n] = dict(property=meta["property"], summary=meta.get("summary", ""), repo_head=head, checks={}, detected=None,
                              superseded=meta["superseded"])
            json.dump(results, open(results_path, "w"), indent=1, sort_keys=True)
            print(f"{n:28s} superseded by {meta['superseded'].get('by')}")
            continue
        patch = os.path.join(d, "patch.diff")
        fresh_repo_copy(repo_copy)
        a = sh(f"git -C {repo_copy} apply --whitespace=nowarn {patch}")
        if a.returncode != 0:
            results[n] = dict(error="patch does not apply to /repo HEAD " + head + ": " + a.stdout[-300:])
            print(f"{n:28s} PATCH DOES NOT APPLY")
            continue
        touch_all(repo_copy)
        binds = [f"mount --bind {repo_copy} /repo"]
        for b in BIND_DIRS:
            src = os.path.join(SCRATCH, b)
            os.makedirs(src, exist_ok=True)
            os.makedirs(os.path.join(ROOT, b), exist_ok=True)
            binds.append(f"mount --bind {src} {os.path.join(ROOT, b)}")
        res = {}
        for p in props:
            t0 = time.time()
            script = " && ".join(binds) + f" && cd {ROOT} && ./check {p} --tier quick"
            r = sh(f"unshare -m bash -c '{script}'", timeout=1800)
            keys = [l.split("key=")[1].split()[0] for l in r.stdout.splitlines() if l.strip().startswith("key=")]
            res[p] = dict(exit=r.returncode, keys=keys, wall_s=round(time.time() - t0, 1),
                          tail=r.stdout.strip().splitlines()[-1][:300] if r.stdout.strip() else "")
        results[n] = dict(property=meta["property"], summary=meta.get("summary", ""), repo_head=head, checks=res,
                          detected=any(v["exit"] == 1 for v in res.values()))
        json.dump(results, open(results_path, "w"), indent=1, sort_keys=True)
        det = results[n].get("detected")
        print(f"{n:28s} {'DETECTED' if det else 'missed  '} " + " ".join(f"{p}:exit{v['exit']}:{','.join(v['keys'][:3])}" for p, v in results[n]["checks"].items()), flush=True)
    shutil.rmtree(repo_copy, ignore_errors=True)
    return 0


if __name__ == "__main__":
    sys.exit(main())
