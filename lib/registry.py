"""Which harness steps decide which property (read by /verif/check)."""

PYSTEPS = {}
try:
    import steps_start
    PYSTEPS["c07_start"] = steps_start.c07_start
except Exception as _e:  # keep the registry importable if a step module is broken; the step then fails loudly
    steps_start = None
try:
    import steps_thread
    PYSTEPS["thread_c05"] = steps_thread.run_c05
    PYSTEPS["thread_c06"] = steps_thread.run_c06
except Exception as _e:
    steps_thread = None
try:
    import steps_clock
    PYSTEPS["c19_vdso"] = steps_clock.c19_vdso
except Exception as _e:
    steps_clock = None

def _s(pkg, phase=None, **kw):
    d = dict(pkg=pkg, bin=kw.pop("bin", pkg), phase=phase)
    d.update(kw)
    return d

PROPS = {
    "C01": dict(
        level="model_checking",
        technique="stateless model checking of the verbatim Mutex sources under a controlled scheduler: all schedules within preemption/deviation bounds (CHESS-style iterative context bounding) of every program over {lock, try_lock, Debug-format}, on one lock instance and on two independent instances used at the same time (one of them optionally held for ever: a thread parked on a free lock is a deadlock, a thread parked behind a for-ever holder is not), happens-before race detection; repeated in a no-debug-assertions profile and with every tiny-std feature on; many-thread canonical schedules; compile-time Send/Sync table; futex-model conformance against the real wrappers",
        steps=[_s("h-sync", "c01"), _s("h-sync", "futexconf"), _s("h-sync", "traits-c01"),
               _s("h-sync", "c01", profile="nochk", name="c01-nochk", args=["--lite"]),
               _s("h-sync", "c01", bin="h-sync-feat", features=["allfeat"], name="c01-all-tiny-std-features", args=["--lite"]),
               _s("h-sync", "c01", bin="h-sync-wide", features=["wide"], name="c01-many-threads")],
        assumptions=["SC interleavings + C11 release/acquire happens-before (vector clocks); W-bounded stale reads only in the thorough tier",
                     "the same programs (cheaper half of the budgets) are explored in a second build profile without debug assertions / overflow checks and in a build with every tiny-std cargo feature name switched on (the sources are compiled verbatim inside the harness crate, so cfg(feature) gates in them see the harness crate's features)",
                     "the futex model (wait compares atomically, wake picks any waiter, spurious returns) stands in for the kernel; bound by the futexconf step",
                     "bounds: <=4 (thorough 5) threads with <=2 (3) ops per thread under full preemption/deviation budgets as listed in coverage.bounds",
                     "many-thread step: one holder plus 65/70 parked threads, canonical schedule and every single departure from it only (wake counts / batch sizes that need dozens of parked threads)"],
    ),
    "C02": dict(
        level="model_checking",
        technique="stateless model checking of the verbatim RwLock sources under a controlled scheduler: all schedules within preemption/deviation bounds, every wake target and hand-off branch, happens-before race detection; one lock instance and two independent instances used at the same time (one optionally held for ever); start states at reader saturation (preset state word); repeated in a no-debug-assertions profile and with every tiny-std feature on; many-thread canonical schedules; compile-time Send/Sync table",
        steps=[_s("h-sync", "c02"), _s("h-sync", "futexconf"), _s("h-sync", "traits-c02"),
               _s("h-sync", "c02", profile="nochk", name="c02-nochk", args=["--lite"]),
               _s("h-sync", "c02", bin="h-sync-feat", features=["allfeat"], name="c02-all-tiny-std-features", args=["--lite"]),
               _s("h-sync", "c02", bin="h-sync-wide", features=["wide"], name="c02-many-threads")],
        assumptions=["same execution model as C01", "bounds: <=4 threads, <=2 ops per thread"],
    ),
    "C10": dict(
        level="exploration",
        technique="bounded-exhaustive enumeration of all byte strings / pairs over a 4-letter alphabet through the real constructors (no sampling), literal-template families, length ladders, in two build profiles; directory-entry names from multi-fill directories",
        steps=[_s("h-str", "c10"), _s("h-str", "c10", profile="nochk", name="c10-nochk"), _s("h-fs", "readdir", name="dirent-names")],
        assumptions=["alphabet {NUL,'/','a',0xFF} is representative for code that only distinguishes NUL, '/', and other bytes",
                     "directory-entry names: the readdir step of the C14 harness applies the same raw-slice oracle to DirEntry::file_unix_name (keys C10:DirEntry::...)"],
    ),
    "C11": dict(
        level="exploration",
        technique="bounded-exhaustive enumeration of all operand pairs over {a,b,/,.} against naive byte-slice definitions, operands against guard pages; operands sharing storage (every tail of the receiver as the other operand, both roles; pairs stored back to back in one block), raw operands holding NUL bytes, multi-byte characters with shared lead bytes, literal templates, length ladders; two build profiles",
        steps=[_s("h-str", "c11"), _s("h-str", "c11", profile="nochk", name="c11-nochk")],
        assumptions=["the code under test distinguishes only '/' , NUL and equality of bytes, so a 4-letter alphabet exercises every comparison outcome"],
    ),

    "C08": dict(
        level="exploration",
        technique="bounded-exhaustive enumeration of n x alignments x overlaps (x fill values incl. out-of-byte-range ints, multi-difference compare operands) on the verbatim mem.rs in a private dlopen'ed cdylib; volatile byte-loop reference, canaries + guard pages; hardware write watchpoints on the words just outside the destination (any store counts, whatever the value)",
        steps=[_s("h-mem", "c08")],
        assumptions=["sizes beyond the exhaustive window are covered only by a fixed ladder up to 1 MiB",
                     "mem.rs is compiled with the harness profile (opt-level 2, debug assertions on), x86_64"],
    ),
    "C14": dict(
        level="exploration",
        technique="bounded-exhaustive enumeration of path shapes x prior trees (all node kinds), component names over a dotted-name alphabet (., .., ..., x.., ..x, ...), a concurrent creator acting before each mkdir (seam), reads of files whose reported size differs from their content (procfs, sysfs, forged st_size), entry multisets, tree shapes, the listing and removal families repeated with every getdents64 record's type erased to DT_UNKNOWN (syscall seam) and with forged records, capacity x size grids for read_to_end, source-handle positions for copy, and explicit-state BFS over operation sequences and over OpenOptions setter histories on the real fs functions; std::fs as independent observer / differential reference",
        steps=[_s("h-fs", "mkdirall"), _s("h-fs", "rwcopy"), _s("h-fs", "readdir"), _s("h-fs", "rmall"), _s("h-fs", "seq")],
        assumptions=["Err results are not judged except where the statement fixes them (write/copy onto a directory) and, for dotted component names, where std::fs::create_dir_all succeeds on a twin directory",
                     "runs as root: permission failures, ENOSPC, concurrent modification not covered",
                     "full grids on tmpfs (/dev/shm), reduced grids repeated on the std temp dir's file system"],
    ),
    "C15": dict(
        level="exploration",
        technique="bounded-exhaustive enumeration of reader/writer response scripts (short pieces, EOF, EINTR, four other error kinds incl. EAGAIN / Timeout / Uncategorized, unwinding panics) x start capacities and prior contents of the caller's buffer through the real default methods of tiny_std::io::{Read,Write} (no sampling); reference = plain concatenation, error identity (the very error the source gave, no call after it, data before it kept), String UTF-8 invariant; print macros through the syscall seam",
        steps=[_s("h-io", "c15"), _s("h-misc", "print")],
        assumptions=["print!/println!/eprint!/dbg! path (unix/print.rs) checked through the syscall seam with scripted write answers (step print)",
                     "writer EINTR: retry or returning EINTR both accepted; buffer contents after an I/O error are not constrained (a String must stay valid UTF-8, and unchanged when the delivered bytes are not UTF-8)"],
    ),
    "C19": dict(
        level="exploration",
        technique="bounded-exhaustive Cartesian boundary grid (closed once under exact t+-d) through every public arithmetic/comparison op of Instant/SystemTime/MonotonicInstant against exact i128 nanosecond arithmetic, in two build profiles; sleep against a virtual clock over every interruption script; clock identity per (link mode x entry point x vDSO/syscall path) cell with kernel-sandwiched readings (sampled inside a cell), each real-vDSO cell also inside a time namespace with distinct monotonic / boottime offsets, synthetic vDSO images answering differently per clock id",
        steps=[_s("h-time", "arith"),
               _s("h-time", "arith", profile="nochk", name="arith-nochk"),
               _s("h-time", "clock"),
               _s("h-misc", "sleep"),
               dict(kind="py", fn="c19_vdso", name="vdso-clock-identity", pkg="probe-clock", bin="probe-clock", phase=None,
                    builds=(steps_clock.SETUP_BUILDS if steps_clock else []))],
        assumptions=["operations are piecewise-linear in (sec,nsec) with comparisons against 0, 10^9 and the i64/u64 limits; the grid holds the +-2 (thorough +-3) neighbourhood of each",
                     "monotonic clock and real sleep are SAMPLED (labelled so); exactness is exhaustive over the grid, not over the 2^128 domain",
                     "vDSO/syscall clock identity (no-libc probe started through tiny-start): cells (link mode x entry point x path) enumerated, readings inside a cell sampled, each sandwiched between two raw clock_gettime system calls"],
    ),
    "C20": dict(
        level="exploration",
        technique="bounded-exhaustive enumeration: every field-value assignment x every option permutation round-trips through the real derive output; every token list up to a length bound against an independent grammar recogniser; length ladders over every way text reaches the cause buffer, write sequences on the buffer judged after every call, error types whose Display swallows write errors; help-text-vs-matcher differential; shapes incl. built-in name collisions, non-ASCII names, literal spellings",
        steps=[_s("h-cli", "c20")],
        assumptions=["15 struct shapes; repeats <= 2 per repeated field; the oracle accepts either outcome where the declared grammar leaves acceptance open"],
    ),

    "C17": dict(
        level="model_checking",
        technique="explicit-state BFS over all interleavings of application steps (the real IoUring methods, via hook H1) and simulated kernel steps, from every start value of the ring counters incl. wrap; invariants on every state; bound to the code's set-up by real-kernel rings for every entry-size flag x size x batch sequence, and by a fat-LTO busy-polling reaper",
        steps=[_s("h-ring", None, name="ring"), _s("h-ring", None, name="ring-nochk", profile="nochk"), _s("h-uring", "ringflags", name="real-rings"),
               _s("h-uring", "poll", bin="h-uring-poll", profile="ltofat", name="polling-reaper-ltofat"),
               _s("h-uring", "spin", bin="h-uring-spin", profile="ltofat-abort", name="straight-line-program-ltofat-abort"),
               _s("h-ring-wm", None, name="weak-memory-handover")],
        assumptions=["kernel side simulated at call granularity (consume 1/all, post 1/all); the index array is the identity as set up by setup_io_uring",
                     "weak-memory step: the ring hand-over methods (needs_wakeup, get_next_sqe_slot, flush_submission_queue, get_next_cqe) are cut verbatim out of rusl's io_uring.rs by item boundaries (a missing item fails the build) and compiled against the instrumented atomics of engine E1; application thread + a poller thread following the kernel's io_sq_thread protocol; every schedule within P 2-3 and W 2 stale reads (store buffering), SeqCst fences modelled as AcqRel RMWs of one common word; every program with the kernel-owned other bits of the SQ flags word preset to each of {none, CQ_OVERFLOW, TASKRUN, both} and one with a third thread toggling CQ_OVERFLOW; truth table of needs_wakeup over the low 3 bits of the word; full completion rings of 1 and 2 with a kernel thread posting into a slot the moment the head releases it, slot copies tracked for data races, every completion reaped exactly once in order",
                     "polling-reaper step (fat-LTO build): an application that busy-polls get_next_cqe / get_next_sqe_slot with no system call in the loop must observe an asynchronous completion / freed slot: binds 'the ring words are read with real atomics' to what the optimiser may do (compiler-dependent, this toolchain only)",
                     "real-rings step: rings made by the real setup_io_uring for every entry-size flag combination (with and without SQPOLL), sizes 1..8 and CLAMPed oversize requests (slot addresses checked against the mapped array over two full wraps), every start slot x every sequence of batch lengths, NOP entries against the real kernel: binds the model's set-up assumption (identity index array, entry sizes) to the code",
                     "bounded by 2*entries+6 application operations per state space; ring sizes 1,2,4 (thorough: 8)"],
    ),

    "C07": dict(
        level="exploration",
        technique="bounded-exhaustive enumeration of all small environment blocks x keys and argv lists through the real lookup/iterator code (hook H2); exec of real no-libc binaries in each (feature set x link mode x profile) cell with enumerated argv/envp shapes, split credentials, aux values against /proc/self/auxv",
        steps=[_s("h-env", None, name="env-inproc"),
               dict(kind="py", fn="c07_start", name="start-e2e", pkg="probe-start", bin="probe-start", phase=None,
                    builds=(steps_start.SETUP_BUILDS if steps_start else []))],
        assumptions=["keys that are empty or contain '=' are not judged (POSIX names cannot contain '=')",
                     "vDSO-vs-syscall clock agreement is sampled, not enumerated"],
    ),

    "C09": dict(
        level="fault_enumeration",
        technique="forced-value fault enumeration over the syscall seam (SUD) on the real rusl wrappers; exhaustive over all errno values and the stated success value sets, per wrapper and per argument shape (equal arguments, empty slices, each scalar parameter at its type's special values); wrapper and parameter tables checked against a build-time source scan",
        steps=[_s("h-sys", "c09")],
        assumptions=["per wrapper one invocation with fixed harmless arguments plus argument-shape variants (#eq: equal descriptors / paths, #len0: empty slices and zero counts, #param=label: each scalar parameter in turn at the special values of its type: -1/0/MIN/MAX, empty/all flag bits, None/Some(0)/Some(MAX), every enum variant; generated from a signature scan, a parameter without entry is a machinery failure); one parameter at a time; a branch keyed on some other constant is not entered; every issued call must be the wrapper's own system call number",
                     "the suppressed kernel's out-parameters are zero/plausibly filled by the plan (pipe2 fds 3,4)",
                     "process::exit (never returns) and the composite setup_io_uring are excluded; wrappers without an error channel only get non-error values"],
    ),
    "C12": dict(
        level="fault_enumeration",
        technique="fault enumeration over the syscall seam: every descriptor-creating scenario re-run with each of its system calls failing or answering a non-error deviation (each errno class; all pairs in the thorough tier), parent and forked child, from three descriptor-table start states, with argument-domain extremes, in builds with and without alloc; descriptors the kernel installs through recvmsg (SCM_RIGHTS x1..3, with and without a preceding SCM_CREDENTIALS message, four control-buffer sizes) tracked from the kernel-filled control area; accept under every peer address kind and with the kernel-written address length overwritten; shadow descriptor/mapping table cross-checked with /proc/self/fd",
        steps=[_s("h-fd", "c12"),
               _s("h-fd-noalloc", "c12-noalloc", bin="h-fd-noalloc", cwd="/verif/engines/h-fd/noalloc", name="c12-noalloc")],
        assumptions=["a descriptor named by Stdio::RawFd is only lent: Command::spawn and the no-alloc process::spawn must leave it open in the parent, referring to the same file with the same status and descriptor flags, on every path (Ok, Err, every injected deviation); closing it is reported as closes-foreign-fd; the harness closes the RawFds it created after judging; ownership is transferred only by File::from_raw_fd / OwnedFd::from_raw",
                     "short transfer counts, munmap failures and triples of faults are not enumerated"],
    ),

    "C16": dict(
        level="fault_enumeration",
        technique="answer-script enumeration within a deviation budget against an in-process model kernel (syscall seam; O_NONBLOCK, close-on-exec, pending inbound data, poll event masks and ppoll's write-back of the remaining time modelled; timed waits bounded from both sides) for the real stream/listener code; exhaustive small-domain enumeration of fd-passing cases on the real kernel with guard-paged control buffers; model-kernel conformance pass incl. real fork+exec; sampled bulk transfers",
        steps=[_s("h-net", "model"), _s("h-net", "cmsg"), _s("h-net", "cmsg", profile="nochk", name="cmsg-nochk"),
               _s("h-net", "conformance"), _s("h-net", "bulk")],
        assumptions=["the model kernel only gives answers Linux gives for a single-owner stream; each answer kind is witnessed on the real kernel first (conformance step)",
                     "one connection and one data direction per scenario; payloads <= 5 bytes and FIFO capacities <= 16 in the enumerated part; the 8 MiB bulk transfer is sampled",
                     "EPIPE/SIGPIPE, RST, lasting backlog overflow and errno injection are outside the model (errno injection belongs to C12)"],
    ),

    "C13": dict(
        level="fault_enumeration",
        technique="fault enumeration over the syscall seam with fork re-arming: every command configuration of the family (stdio modes incl. descriptors 0..2, closed standard descriptors, program-path shapes x cwd, argument/env counts) run fault-free against a dumping helper, and re-run with each parent-side and child-side system call failing; all wait/try_wait sequences against helper behaviours; call-log oracle in every run (parent: every descriptor created close-on-exec from its creation; child: only the documented steps between fork and exec/exit); a second caller thread holding tiny-std's stderr lock across the spawn; built with and without tiny-std's start feature",
        steps=[_s("h-spawn", "c13"), _s("h-spawn", "c13-start", bin="h-spawn-start", features=["with-start"]), _s("h-spawn", "waitseq")],
        assumptions=["fork (not vfork) semantics; signals during spawn are not covered; other threads of the caller are covered only through the deterministic call-log oracle (close-on-exec at creation, no lock-taking or extra work in the child) and one lock-holder scenario, not by racing forks",
                     "Environment::Inherit is exercised through hook H2 in the start build only",
                     "Child::wait returning the raw wait status or the exit code are both accepted"],
    ),

    "C18": dict(
        level="exploration",
        technique="bounded-exhaustive enumeration of every batch (sequence) up to a length bound over a 42-symbol operation alphabet, independent / soft- / hard-linked, per ring size and accepted flag set, optional-argument combinations, socket address kinds, through the real wrapper on the real kernel, differential against direct system calls; exported constants against the kernel headers; ring teardown observed through the syscall seam",
        steps=[_s("h-uring", "ops"), _s("h-uring", "drop"), _s("h-uring", "sqebytes", bin="h-uring-poll", profile="o0", name="sqe-bytes-o0")],
        assumptions=["reference = direct libc calls in a twin directory / twin sockets; kernel link-severing rules learned through a raw ring and modelled in the reference",
                     "batches <= 3 (thorough 4), rings <= 8; index wrap is C17's concern"],
    ),

    "C05": dict(
        level="model_checking",
        technique="protocol model of spawn/join/drop/thread-exit/kernel-exit (steps = H3 gates), BFS over all interleavings; every maximal trace replayed as a gate schedule on the real no-libc binary (quarantining red-zoned allocator log + strace) for result types zero-sized to 4096-aligned, panicking closures and destructors; nested spawning; ungated 1..64 live threads; strace fault injection on mmap/clone/futex",
        steps=[dict(kind="py", fn="thread_c05", name="thread", pkg="probe-thread", bin="probe-thread", phase=None,
                    builds=(steps_thread.SETUP_BUILDS if steps_thread else []))],
        assumptions=["ordering at gate granularity; x86_64, debug build of the probe; 2-thread replay = product of single-thread traces with canonical linearisations",
                     "ungated concurrent-thread runs and the racy drop rely on OS timing (sampled)"],
    ),
    "C06": dict(
        level="model_checking",
        technique="same protocol model and gate-schedule replay as C05 with the oracle on resources (quarantining counting allocator, strace munmap/exit, /proc maps); scenario mixtures of length <= 3 and per-scenario repetition until the resource fingerprint recurs (lasso)",
        steps=[dict(kind="py", fn="thread_c06", name="thread", pkg="probe-thread", bin="probe-thread", phase=None,
                    builds=(steps_thread.SETUP_BUILDS if steps_thread else []))],
        assumptions=["fingerprint = live (size, align) multiset, maps line count, VmSize, task count; the allocator's internal free lists are C04's concern",
                     "ordering at gate granularity; x86_64 debug build"],
    ),

    "C03": dict(
        level="exploration",
        technique="exhaustive enumeration of bounded malloc/calloc/realloc/free histories, size-class boundary sweeps from seed heaps, every mmap placement script incl. multi-segment release and segment-junction families and a release pass (trim / countdown) meeting a wholly free older segment in each role its chunk can have (tree-binned, the designated victim), and every refused mmap/mremap, on the real Dlmalloc with its system calls answered by a model kernel for anonymous memory (syscall seam); shadow-map oracle after every call",
        steps=[_s("h-alloc", "hist"), _s("h-alloc", "boundary"), _s("h-alloc", "placement"), _s("h-alloc", "oom"),
               _s("h-alloc", "galloc", bin="h-galloc", features=["galloc-threaded"], name="galloc-threaded", timeout_quick=240, timeout_thorough=2400),
               _s("h-alloc", "galloc", bin="h-galloc-st", features=["galloc-single"], name="galloc-st", timeout_quick=240, timeout_thorough=2400)],
        assumptions=["the model kernel places mappings inside a reserved arena (below / above-adjacent / disjoint) and turns unmapped ranges into PROT_NONE, so any touch of returned memory faults",
                     "histories to a bounded depth with <= 3 live blocks over a representative size alphabet; boundary sweep from a fixed set of seed heap states"],
    ),
    "C04": dict(
        level="model_checking",
        technique="lasso detection (explicit-state): every workload of the enumerated families (allocation sets, malloc/calloc/realloc/aligned sequences, same-tree-bin triples, requests sized exactly (+-16) to what an earlier step of the same repetition left behind between pinned neighbours) is iterated on the real allocator (model kernel) from every start layout found by a BFS over warm-up episodes until the full allocator state recurs; a recurrence proves the footprint periodic, hence bounded for every repetition count; counter fast-forward cross-validated against brute force",
        steps=[_s("h-alloc", "lasso")],
        assumptions=["state = allocator struct bytes + all mapped bytes + mapping table, compared by fingerprint", "workloads of <= 3 (thorough 4) blocks over a size alphabet, three placement policies; the multi-threaded clause reduces to the sequential one through the global Mutex (C01)"],
    ),
}
