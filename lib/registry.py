"""Which harness steps decide which property (read by /verif/check)."""

PYSTEPS = {}

def _s(pkg, phase=None, **kw):
    d = dict(pkg=pkg, bin=kw.pop("bin", pkg), phase=phase)
    d.update(kw)
    return d

PROPS = {
    "C10": dict(
        level="exploration",
        technique="bounded-exhaustive enumeration of all byte strings / pairs over a 4-letter alphabet through the real constructors (no sampling)",
        steps=[_s("h-str", "c10")],
        assumptions=["alphabet {NUL,'/','a',0xFF} is representative for code that only distinguishes NUL, '/', and other bytes",
                     "directory-entry names are covered by the C14 harness (same oracle)"],
    ),
    "C11": dict(
        level="exploration",
        technique="bounded-exhaustive enumeration of all operand pairs over {a,b,/,.} against naive byte-slice definitions, operands against guard pages",
        steps=[_s("h-str", "c11")],
        assumptions=["the code under test distinguishes only '/' , NUL and equality of bytes, so a 4-letter alphabet exercises every comparison outcome"],
    ),
}
