#!/usr/bin/env python3
"""Maintenance helper (never run by a check): add an entry to known_findings.json.
usage: kf.py <property> <key> <open|fixed> <commit-or-> <description>"""
import json, sys, os
p = os.path.join(os.path.dirname(os.path.dirname(os.path.abspath(__file__))), "known_findings.json")
d = json.load(open(p)) if os.path.exists(p) else {"findings": []}
prop, key, status, commit, desc = sys.argv[1:6]
d["findings"] = [e for e in d["findings"] if e["key"] != key]
e = dict(property=prop, key=key, status=status, description=desc)
if status == "fixed":
    e["commit"] = commit
    e["line"] = f"fixed: property={prop} {commit} {desc}"
d["findings"].append(e)
json.dump(d, open(p, "w"), indent=1)
