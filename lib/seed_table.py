#!/usr/bin/env python3
"""Write /verif/seeded/README.md: one row per seeded change with what it needs to manifest and which check keys catch it."""
import json, os, glob
ROOT = os.path.dirname(os.path.dirname(os.path.abspath(__file__)))
res = json.load(open(os.path.join(ROOT, "seeded", "RESULTS.json")))
rows = []
for d in sorted(glob.glob(os.path.join(ROOT, "seeded", "*", "meta.json"))):
    n = d.split("/")[-2]
    m = json.load(open(d))
    r = res.get(n, {})
    keys = []
    for p, c in r.get("checks", {}).items():
        keys += c.get("keys", [])
    keys = sorted(set(keys))
    rows.append((n, m["property"], m.get("summary", "").replace("|", "/").replace("\n", " ")[:260],
                 m.get("needs_to_manifest", "").replace("|", "/").replace("\n", " ")[:200],
                 ("out of the property's scope" if r.get("out_of_scope") else "superseded by fix " + r["superseded"].get("by", "") if r.get("superseded") else "yes" if r.get("detected") else ("NO" if r else "not run")), ", ".join(k.split(":", 1)[1] if ":" in k else k for k in keys[:4])))
out = ["# Seeded property-breaking changes", "",
       "Written by independent sub-agents that saw only the property text (wave `b`: asked to exceed small bounds; wave `c`: told that length ladders, repeated faults and many-thread runs exist too; wave `d`: told everything the checks did by then and pointed at features, process-wide state, re-entrancy, drop order; wave `e`: after the audits; wave `f`: given the complete list of swept dimensions; `*-audit-*`: regression seeds that re-introduce a repaired defect). Each compiles, passes the pinned 185-test suite,",
       "has a demonstration that fails with it and passes without it (all re-confirmed by the main session in a scratch worktree; see `confirmed` in each meta.json),",
       "and was then run against the registered quick check with `lib/seedtest.py` (apply to /repo, run, undo).", "",
       f"{sum(1 for r in rows if r[4]=='yes')} of {sum(1 for r in rows if not r[4].startswith('superseded') and not r[4].startswith('out of'))} detected"
       + (f" ({sum(1 for r in rows if r[4].startswith('out of'))} out of the property's scope: the change does not break the property as quantified, see its meta.json)." if any(r[4].startswith('out of') for r in rows) else "")
       + (f" ({sum(1 for r in rows if r[4].startswith('superseded'))} superseded: the change no longer breaks the property after a later fix: commit, see its meta.json)." if any(r[4].startswith('superseded') for r in rows) else "."), "",
       "| seed | property | change | needs | detected | first keys |", "|---|---|---|---|---|---|"]
for r in rows:
    out.append("| " + " | ".join(r) + " |")
open(os.path.join(ROOT, "seeded", "README.md"), "w").write("\n".join(out) + "\n")
print(out[6])
